/-
  C04 — Position isolation.
  Proved, for every state in which delegation records are stored under their own key (`KeyedDels`, kept by these
  operations) and every argument, whether the operation succeeds or fails:
  * `delegate_/undelegate_/redelegate_/claim_touches_no_other_delegator`: the four user operations leave every
    delegation RECORD (shares, reward indices, claim height) of every other delegator untouched;
  * `first_deposit_is_one_to_one`: a validator without delegator shares issues shares 1:1 — the base case of the
    exchange rate;
  * `value_formula`: the reported value of a position is ⌊ (shares / validatorDelegatorShares) · validatorTokens + 0.01 ⌋ —
    a function of the position's own shares and the two validator totals only.
  Together: another delegator's reported value can change through an operation only via the two validator totals
  (delegator-share total, token value), never through its own record. The size of that change — the property's
  "one base unit plus 18-digit relative error" — is NOT proved; it is what the exact-rational monitors `value_moved` /
  `actor_value` decide on concrete histories, with the known exceptions `dust_validator` and `full_withdraw_rounder`.
-/
import AllianceProofs
import AllianceProofs.ArithTie
namespace Alliance
namespace C04
open Dec

private theorem other_records {u : Acct} {m : M Unit} (h : DelsOf u m) (w : World) (hk : KeyedDels w)
    (k : DelKey) (hne : k.1 ≠ u) : AL.get (m w).2.dels k = AL.get w.dels k ∧ KeyedDels (m w).2 :=
  ⟨(h.run w hk).2 k hne, (h.run w hk).1⟩

theorem delegate_touches_no_other_delegator (del : Acct) (v : ValId) (d : Denom) (amt : Int) (w : World)
    (hk : KeyedDels w) (k : DelKey) (hne : k.1 ≠ del) :
    AL.get (step (.delegate del v d amt) w).2.dels k = AL.get w.dels k ∧ KeyedDels (step (.delegate del v d amt) w).2 := by
  refine other_records (u := del) ?_ w hk k hne
  show DelsOf del (asTx (msgDelegate del v d amt))
  apply DelsOf.asTx
  unfold msgDelegate
  apply DelsOf.bind (by do_frame); intro _
  apply DelsOf.bind (by do_frame); intro val
  exact delegate_delsOf del val d amt

theorem undelegate_touches_no_other_delegator (del : Acct) (v : ValId) (d : Denom) (amt : Int) (w : World)
    (hk : KeyedDels w) (k : DelKey) (hne : k.1 ≠ del) :
    AL.get (step (.undelegate del v d amt) w).2.dels k = AL.get w.dels k ∧ KeyedDels (step (.undelegate del v d amt) w).2 := by
  refine other_records (u := del) ?_ w hk k hne
  show DelsOf del (asTx (msgUndelegate del v d amt))
  apply DelsOf.asTx
  unfold msgUndelegate
  apply DelsOf.bind (by do_frame); intro _
  apply DelsOf.bind (by do_frame); intro val
  exact undelegate_delsOf del val d amt

theorem redelegate_touches_no_other_delegator (del : Acct) (s t : ValId) (d : Denom) (amt : Int) (w : World)
    (hk : KeyedDels w) (k : DelKey) (hne : k.1 ≠ del) :
    AL.get (step (.redelegate del s t d amt) w).2.dels k = AL.get w.dels k ∧
      KeyedDels (step (.redelegate del s t d amt) w).2 := by
  refine other_records (u := del) ?_ w hk k hne
  show DelsOf del (asTx (msgRedelegate del s t d amt))
  apply DelsOf.asTx
  unfold msgRedelegate
  apply DelsOf.bind (by do_frame); intro _
  apply DelsOf.bind (by do_frame); intro sv
  apply DelsOf.bind (by do_frame); intro tv
  exact redelegate_delsOf del sv tv d amt

theorem claim_touches_no_other_delegator (del : Acct) (v : ValId) (d : Option Denom) (w : World)
    (hk : KeyedDels w) (k : DelKey) (hne : k.1 ≠ del) :
    AL.get (step (.claim del v d) w).2.dels k = AL.get w.dels k ∧ KeyedDels (step (.claim del v d) w).2 := by
  refine other_records (u := del) ?_ w hk k hne
  show DelsOf del (asTx (msgClaim del v d))
  apply DelsOf.asTx
  unfold msgClaim
  cases d with
  | none => exact DelsOf.throwE _
  | some dd =>
    dsimp only []
    apply DelsOf.bind (by do_frame); intro val
    apply DelsOf.bind (claimDelegationRewards_delsOf del val dd); intro _
    exact DelsOf.pure ()

/-- a validator with no (whole) delegator share issues shares one to one -/
theorem first_deposit_is_one_to_one (info : ValInfo) (a : Asset) (token : Int)
    (h : truncateInt (totalDelSharesWithDenom info a.denom) = 0) :
    delegationSharesFromTokens info a token = .ok (ofInt token) := by
  unfold delegationSharesFromTokens
  simp only [h, if_true]

/-- the reported value of a position depends on its own shares and the two validator totals only -/
theorem value_formula (shares : Dec) (info : ValInfo) (a : Asset) :
    delegationTokensWithShares shares info a =
      newCoinAmt (truncateInt (convertNewShareToDecToken (totalTokensWithAsset info a)
        (totalDelSharesWithDenom info a.denom) shares + rounder)) := rfl

/-- non-vacuity: a keyed state with two delegators -/
example : KeyedDels { (default : World) with dels :=
    [((10, 0, 0), { del := 10, val := 0, denom := 0, shares := one, hist := [], lastClaimHeight := 0 }),
     ((11, 0, 0), { del := 11, val := 0, denom := 0, shares := one, hist := [], lastClaimHeight := 0 })] } := by
  intro p hp
  simp only [List.mem_cons, List.not_mem_nil, or_false] at hp
  rcases hp with rfl | rfl <;> rfl

/-- claims, at the level of VALUE: a successful reward claim changes no share quantity anywhere (`SV`: every position's
    shares, every validator's two share totals, every asset record), so what the delegation query reports for ANY
    delegator, validator and denom — the claimant's own positions included — is exactly what it was (proof:
    AllianceProofs/StakeNeutral; `KD`: records stored under their own key, an invariant of every history, `L0.keyed`) -/
theorem claim_changes_no_delegators_value (del : Acct) (v : ValId) (d : Option Denom) (w w' : World) (hk : KD w)
    (h : step (.claim del v d) w = (.ok (), w')) (del' : Acct) (v' : ValId) (d' : Denom) :
    qDelegation w' del' v' d' = qDelegation w del' v' d' := claim_changes_no_reported_balance del v d w w' hk h del' v' d'

/-- bank side: a successful delegation, undelegation, redelegation or claim by `del` leaves the balance of every OTHER user
    account, in every denom, exactly where it was — only `del` and the system accounts are debited or credited
    (proof: AllianceProofs/OtherUsers) -/
theorem other_users_balances_untouched (op : Op) (del u : Acct) (d : Denom) (hu : IsUser u) (hne : u ≠ del) (w w' : World)
    (hop : match op with
      | .delegate a .. | .undelegate a .. | .redelegate a .. | .claim a .. => a = del
      | _ => False)
    (h : step op w = (.ok (), w')) : bankBalance w' u d = bankBalance w u d :=
  other_users_untouched op del hu hne w w' hop h

/-! ## the value arithmetic is what the source says NOW

  `Generated/Arith.lean` is re-translated from x/alliance/types/{asset,validator}.go and keeper/delegation.go by
  astfacts/translate.go on every run of bin/check; the model's functions are proved equal to it. An operator, operand,
  guard or rounding-order change in the Go source breaks these obligations without any trace having to exercise it. -/

theorem share_token_conversions_are_the_source (tt ts s : Dec) (n : Int) (v : ValInfo) (a : Asset) :
    Generated.ConvertNewTokenToShares tt ts n = convertNewTokenToShares tt ts n ∧
    Generated.ConvertNewShareToDecToken tt ts s = .ok (convertNewShareToDecToken tt ts s) ∧
    Generated.TotalTokensWithAsset v a = .ok (totalTokensWithAsset v a) ∧
    Generated.GetDelegationTokensWithShares s v a = delegationTokensWithShares s v a ∧
    Generated.GetDelegationSharesFromTokens v a n = delegationSharesFromTokens v a n ∧
    Generated.GetValidatorShares a n = validatorShares a n :=
  ⟨ArithTie.convertNewTokenToShares_is_source tt ts n, ArithTie.convertNewShareToDecToken_is_source tt ts s,
   ArithTie.totalTokensWithAsset_is_source v a, ArithTie.getDelegationTokensWithShares_is_source s v a,
   ArithTie.getDelegationSharesFromTokens_is_source v a n, ArithTie.getValidatorShares_is_source a n⟩

theorem validate_delegated_amount_is_the_source (dl : Delegation) (amt : Int) (v : ValInfo) (a : Asset) :
    Generated.ValidateDelegatedAmount dl amt v a = validateDelegatedAmount dl.shares amt v a :=
  ArithTie.validateDelegatedAmount_is_source dl amt v a

/-! ## how far the reported values are from the exact quotients -/

/-- one conversion (`ConvertNewShareToDecToken`, two roundings) against the exact s·tt/ts, cross-multiplied on the raw
    10¹⁸-scaled integers: |r·10³⁶·ts − s·tt·10³⁶| ≤ (H+1)·ts·tt + H·P·ts, i.e. |r − s·tt/ts| ≤ (½·10⁻¹⁸ + 10⁻³⁶)·tt + ½·10⁻¹⁸
    — "the relative error of 18-digit fixed-point arithmetic" of the property, as a theorem (AllianceProofs/ValueError) -/
theorem conversion_error_bound (tt ts s : Dec) (htt : 0 ≤ tt) (hts : 0 < ts) (hs : 0 ≤ s) :
    let r := convertNewShareToDecToken tt ts s
    r * (P * P * ts) - s * tt * (P * P) ≤ (H + 1) * ts * tt + H * P * ts ∧
    -(r * (P * P * ts) - s * tt * (P * P)) ≤ (H + 1) * ts * tt + H * P * ts := convert_error_bound tt ts s htt hts hs

/-- tokens → shares: |S·10¹⁸·tt − ts·n·10³⁶| ≤ (H+1)·tt·n -/
theorem shares_for_tokens_error_bound (tt ts : Dec) (n : Int) (S : Dec) (htt : 0 < tt) (hts : 0 < ts) (hn : 0 ≤ n)
    (h : convertNewTokenToShares tt ts n = .ok S) :
    S * (P * tt) - ts * n * (P * P) ≤ (H + 1) * (tt * n) ∧ -(S * (P * tt) - ts * n * (P * P)) ≤ (H + 1) * (tt * n) :=
  shares_from_tokens_error tt ts n S htt hts hn h

/-- the reported balance is the floor of (value + 0.01) -/
theorem reported_balance_is_floor (D : Dec) (hD : 0 ≤ D) :
    truncateInt (D + rounder) * P ≤ D + rounder ∧ D + rounder < (truncateInt (D + rounder) + 1) * P :=
  reported_value_floor D hD


/-- THE TOLERANCE, as a theorem: a deposit of x base units by somebody else issues Quo(tds, V)·x shares; with the validator's
    value moving from V to V' the exact value s·V/tds of a position of s shares moves to s·V'/tds', and cross-multiplied by
    tds·tds'·10¹⁸ the difference is s·x·(one rounding of `Quo`, in [−H·V, (H+1)·V]) plus s·(V' − V − x·10¹⁸)·tds·10¹⁸ — any error
    of the new validator value enters linearly -/
theorem deposit_moves_other_positions_by_one_rounding (s tds V V' : Dec) (x : Int) (hs : 0 ≤ s) (htds : 0 ≤ tds)
    (hV : 0 < V) (hx : 0 ≤ x) :
    let tds' := tds + mulInt (quo tds V) x
    s * (V' * tds - V * tds') * P ≤ s * x * ((H + 1) * V) + s * ((V' - V - x * P) * (tds * P)) ∧
    s * x * (-(H * V)) + s * ((V' - V - x * P) * (tds * P)) ≤ s * (V' * tds - V * tds') * P :=
  deposit_drift s tds V V' x hs htds hV hx

/-- with V' = V + x·10¹⁸: every other position's exact value moves by at most (½·10⁻¹⁸ + 10⁻³⁶)·x·(s/tds')·(V/tds) tokens — up —
    and down by at most ½·10⁻¹⁸ of that -/
theorem deposit_tolerance (s tds V : Dec) (x : Int) (hs : 0 ≤ s) (htds : 0 ≤ tds) (hV : 0 < V) (hx : 0 ≤ x) :
    let tds' := tds + mulInt (quo tds V) x
    let V' := V + x * P
    s * (V' * tds - V * tds') * P ≤ s * x * ((H + 1) * V) ∧ s * x * (-(H * V)) ≤ s * (V' * tds - V * tds') * P :=
  deposit_drift_exact_value s tds V x hs htds hV hx

/-- the mirror for a withdrawal by somebody else in the unclamped branch of `ValidateDelegatedAmount` -/
theorem withdrawal_tolerance (s tds V : Dec) (x : Int) (hs : 0 ≤ s) (htds : 0 ≤ tds) (hV : 0 < V) (hx : 0 ≤ x) :
    let tds' := tds - mulInt (quo tds V) x
    let V' := V - x * P
    s * x * (-((H + 1) * V)) ≤ s * (V' * tds - V * tds') * P ∧ s * (V' * tds - V * tds') * P ≤ s * x * (H * V) :=
  withdraw_drift_exact_value s tds V x hs htds hV hx

/-- the shares `Delegate` issues are the ones the theorem speaks about -/
theorem deposit_issues_those_shares (V tds : Dec) (x : Int) (htds : tds ≠ 0) (hV : V ≠ 0) :
    convertNewTokenToShares V tds x = .ok (mulInt (quo tds V) x) := deposit_shares V tds x htds hV

/-- non-vacuity: 3 shares worth 10 tokens, deposit of 5: tds' = 4.5, the exact value 10/3 of a 1-share position is kept -/
example : let tds' := 3 * one + mulInt (quo (3 * one) (10 * one)) 5
    tds' = 4500000000000000000 ∧ (10 * one + 5 * P) * (3 * one) - (10 * one) * tds' = 0 := by decide


/-- … in every state of every history, with no hypothesis on the state -/
theorem claim_changes_no_delegators_value_everywhere (w0 w w' : World) (hr : ReachG (clearModuleStore w0) w)
    (del : Acct) (v : ValId) (d : Option Denom) (h : step (.claim del v d) w = (.ok (), w'))
    (del' : Acct) (v' : ValId) (d' : Denom) : qDelegation w' del' v' d' = qDelegation w del' v' d' :=
  claim_changes_no_reported_balance_in_every_history w0 w w' hr del v d h del' v' d'

end C04
end Alliance
