/-
  C19 — State transitions are deterministic: what a proof can carry.
  (1) The model's transition is a FUNCTION of (state, operation, oracle responses): `step`, `run` are ordinary total
      Lean functions, and the correspondence shows the implementation equals that function on every explored step,
      including k-fold re-execution of every step on sibling branches with byte comparison of the alliance, bank and
      staking stores (harness, VERIF_REPLAYS).
  (2) Fact theorem over the table regenerated from the current source on every run: every construct through which
      map order, wall-clock time, randomness or scheduling could reach state is in a justified allow-list.
  Goroutine scheduling, hash seeds and addresses are outside any model of this code (level `other`).
-/
import AllianceProofs
import Generated.Facts
namespace Alliance
namespace C19

/-- justified hazards: `DelegatorSharesInvariant` ranges over two maps only to build a diagnostic string and a
    boolean that is order-independent (a disjunction over all entries); it never writes state -/
def allowlist : List (String × String × String × String) := [
  ("x/alliance/invariants.go", "DelegatorSharesInvariant", "range-over-map", "assets"),
  ("x/alliance/invariants.go", "DelegatorSharesInvariant", "range-over-map", "delegatorShares")
]

/-- every determinism hazard found in the current source of the state-machine packages is allow-listed -/
theorem hazards_allowed : ∀ h ∈ Generated.hazards, h ∈ allowlist := by decide

/-- the result and the post-state of a history are determined by the initial state and the operations alone -/
theorem run_is_a_function (w1 w2 : World) (ops1 ops2 : List Op) (hw : w1 = w2) (ho : ops1 = ops2) :
    run w1 ops1 = run w2 ops2 := by subst hw; subst ho; rfl

/-- and so is every single step, including its error value -/
theorem step_is_a_function (op1 op2 : Op) (w1 w2 : World) (hw : w1 = w2) (ho : op1 = op2) :
    step op1 w1 = step op2 w2 := by subst hw; subst ho; rfl

end C19
end Alliance
