/-
  C18 — Genesis export/import. The model mirrors `ExportGenesis` / `InitGenesis` as they are (Genesis.lean) and the
  correspondence compares the whole state after every export → wipe → import step of the real module.
  What is proved here: what export lists, that bank/staking/clock are outside the round trip, and the two ways the
  round trip is NOT the identity on the unchanged code (known findings D12): the rebalance flag is never restored
  and each pending redelegation is queued twice. What the round trip DOES restore exactly (proofs in
  AllianceProofs/Rebuild, GenesisRoundTrip, UndelRoundTrip): the asset store, the delegation store, and the unbonding
  queue together with its per-validator index — the latter in every state of every history (`reach_ixn`).
-/
import AllianceProofs
namespace Alliance
namespace C18
open Dec

/-- export lists every primary record: assets, validator infos, delegations, redelegation records with their
    completion times, unbonding buckets with theirs, weight-change snapshots, and the params -/
theorem export_lists_primary_records (w : World) :
    (exportGenesis w).params = w.params ∧ (exportGenesis w).assets = w.assets.map (·.2) ∧
    (exportGenesis w).valInfos = w.vals ∧ (exportGenesis w).delegations = w.dels.map (·.2) ∧
    (exportGenesis w).redelegations.length = w.redels.length ∧
    (exportGenesis w).undelegations.length = w.undelQueue.length ∧ (exportGenesis w).snapshots = w.snaps := by
  unfold exportGenesis allAssets
  simp

/-- export does not depend on the derived stores: per-source index, time queue, per-validator unbonding index, flag -/
theorem export_ignores_derived (w : World) (ri : List RedelIdxKey) (rq : List (Time × List Redel))
    (ui : List UndelIdxKey) (f : Bool) :
    exportGenesis { w with redelIndex := ri, redelQueue := rq, undelIndex := ui, flag := f } = exportGenesis w := rfl

/-- a state with a queued rebalance and nothing else -/
def wFlag : World :=
  { (default : World) with flag := true, params := { rewardDelay := 0, takeRateInterval := 1, lastTakeRateClaim := 0 } }

/-- the wiped store has no flag and nothing in `InitGenesis` sets it: after a round trip no rebalance is queued —
    REFUTES "behaves identically" whenever one was queued before (known finding D12) -/
theorem flag_lost : wFlag.flag = true ∧ (reimport wFlag).1 = .ok () ∧ (reimport wFlag).2.flag = false :=
  ⟨rfl, rfl, rfl⟩

/-- a state with one pending redelegation -/
def wRedel : World :=
  { (default : World) with
    redels := [((10, 0, 1, 100), { del := 10, src := 0, dst := 1, denom := 0, amount := 5 })],
    redelQueue := [(100, [{ del := 10, src := 0, dst := 1, denom := 0, amount := 5 }])],
    redelIndex := [(0, 100, 0, 1, 10)],
    params := { rewardDelay := 0, takeRateInterval := 1, lastTakeRateClaim := 0 } }

/-- each pending redelegation is queued twice by import (`addRedelegation` queues, then `queueRedelegation` again);
    record and per-source index come back as they were -/
theorem redelegation_queued_twice :
    (reimport wRedel).2.redelQueue =
      [(100, [{ del := 10, src := 0, dst := 1, denom := 0, amount := 5 }, { del := 10, src := 0, dst := 1, denom := 0, amount := 5 }])] ∧
    (reimport wRedel).2.redels = wRedel.redels ∧ (reimport wRedel).2.redelIndex = wRedel.redelIndex := by
  decide

/-- a chain restart rebuilds the asset store exactly, in every state in which it is sorted and keyed by denom — which
    the custody scope `Core` (an invariant of every history, C01) provides -/
theorem assets_survive_restart (w w' : World) (h : reimport w = (.ok (), w'))
    (hs : AL.SortedBy natKeyOrder w.assets) (hk : ∀ p ∈ w.assets, p.2.denom = p.1) : w'.assets = w.assets :=
  reimport_restores_assets w w' h hs hk

theorem assets_survive_restart_in_scope (d : Denom) (w w' : World) (hc : Core d w) (h : reimport w = (.ok (), w')) :
    w'.assets = w.assets := reimport_restores_assets w w' h hc.asorted hc.keyed

/-- a chain restart rebuilds the delegation store exactly, in every state in which it is sorted and keyed by
    (delegator, validator, denom) — which the share ledger `L0` (an invariant of every history, C03) provides -/
theorem delegations_survive_restart (w w' : World) (hl : L0 w) (h : reimport w = (.ok (), w')) : w'.dels = w.dels :=
  reimport_restores_delegations w w' h hl.dsorted hl.keyed

/-- the unbonding queue AND its per-validator index survive the round trip exactly, wherever index and queue agree
    (INV-I) and no bucket is empty -/
theorem unbondings_survive_restart (w w' : World) (hix : IX w) (hne : NE w) (h : reimport w = (.ok (), w')) :
    w'.undelQueue = w.undelQueue ∧ w'.undelIndex = w.undelIndex := reimport_restores_unbondings w w' h hix hne

/-- … which is every state of every history from the empty stores (`reach_ixn`): pending payouts, their completion
    times and what a later slash will find through the index are the same after a restart -/
theorem unbondings_survive_restart_in_every_history (w0 w w' : World) (h0 : IXN w0) (hr : ReachU w0 w)
    (h : reimport w = (.ok (), w')) : w'.undelQueue = w.undelQueue ∧ w'.undelIndex = w.undelIndex :=
  reimport_restores_unbondings_reachable w0 w w' h0 hr h

/-- non-vacuity: the empty stores satisfy the premise -/
example : IXN (default : World) :=
  ⟨⟨List.Pairwise.nil, List.Pairwise.nil, fun p hp => absurd hp List.not_mem_nil, fun p hp => absurd hp List.not_mem_nil,
    fun k hk => absurd hk List.not_mem_nil⟩, fun p hp => absurd hp List.not_mem_nil⟩

/-- "index and queue agree, no bucket empty" holds along every history in which restarts (export → wipe → import) are steps
    too (`ReachUG`) -/
theorem index_agreement_survives_restarts (w0 w : World) (h0 : IXN w0) (hr : ReachUG w0 w) : IXN w :=
  reach_ixn_with_restarts w0 w h0 hr


/-- THE RESTART THEOREM: in a state whose record stores are sorted and keyed by their own fields (`Stores`, `RK`), whose
    unbonding queue and index agree with no empty bucket (`IXN`) and whose redelegation stores agree (`RX`),
    export → wipe → import brings back assets, validator infos, delegations, snapshots, redelegation records, the unbonding
    queue with its index and the parameters EXACTLY, touches nothing outside the module's genesis (bank, supply, native
    staking, clock), leaves the redelegation stores in agreement and drops the rebalance flag -/
theorem restart_restores_the_module (w w' : World) (hok : RestartOK w) (h : reimport w = (.ok (), w')) :
    SameModuleState w w' ∧ RX w' ∧ w'.flag = false := restart_restores w w' hok h

/-- those hypotheses hold in EVERY state of EVERY history from the empty module store: successful operations on any
    response tape, failed transactions, environment steps that leave the module's stores alone, earlier restarts.
    (`Stores` and `RK` are kept by every keeper function whatever its outcome — KeepStores.lean / KeepRK.lean, one
    generated lemma per function; `IXN` and `RX` are INV-I and INV-R) -/
theorem restart_hypotheses_hold_in_every_history (w0 w : World) (hr : ReachG (clearModuleStore w0) w) : RestartOK w :=
  reach_restart_ok _ _ (restart_ok_empty w0) hr

theorem every_restart_restores_the_module (w0 w w' : World) (hr : ReachG (clearModuleStore w0) w)
    (h : reimport w = (.ok (), w')) : SameModuleState w w' ∧ RX w' ∧ w'.flag = false :=
  every_restart_restores w0 w w' hr h

/-- the property's first clause: a second export is identical to the first, after every history -/
theorem second_export_is_identical (w0 w w' : World) (hr : ReachG (clearModuleStore w0) w)
    (h : reimport w = (.ok (), w')) : exportGenesis w' = exportGenesis w := every_second_export_identical w0 w w' hr h

/-- the property's second clause, where it holds outright: with no redelegation pending and no rebalance queued a restart is
    the IDENTITY on the whole state, so every continuation — results, errors, payouts, slashing effects, query answers — is
    the same on the original and on the re-imported state.  With a redelegation pending or the flag set it is not (D12,
    D11: `redelegation_queued_twice`, `flag_lost` above) -/
theorem restart_is_the_identity_without_pending_redelegations (w w' : World) (hok : RestartOK w) (hf : w.flag = false)
    (h1 : w.redels = []) (h2 : w.redelQueue = []) (h3 : w.redelIndex = []) (h : reimport w = (.ok (), w')) : w' = w :=
  restart_is_identity w w' hok hf h1 h2 h3 h

theorem continuations_agree_after_such_a_restart (w w' : World) (hok : RestartOK w) (hf : w.flag = false)
    (h1 : w.redels = []) (h2 : w.redelQueue = []) (h3 : w.redelIndex = []) (h : reimport w = (.ok (), w'))
    (ops : List Op) : run w' ops = run w ops := restart_then_run_eq w w' hok hf h1 h2 h3 h ops

/-- the store-by-store statements behind it -/
theorem validators_survive_restart (w w' : World) (h : reimport w = (.ok (), w'))
    (hs : AL.SortedBy natKeyOrder w.vals) : w'.vals = w.vals := reimport_restores_validators w w' h hs
theorem snapshots_survive_restart (w w' : World) (h : reimport w = (.ok (), w'))
    (hs : AL.SortedBy delKeyOrder w.snaps) : w'.snaps = w.snaps := reimport_restores_snapshots w w' h hs
theorem redelegation_records_survive_restart (w w' : World) (h : reimport w = (.ok (), w'))
    (hs : AL.SortedBy redelKeyOrder w.redels) (hk : RK w) : w'.redels = w.redels :=
  reimport_restores_redelegation_records w w' h hs hk
theorem outside_untouched_params_restored (w w' : World) (h : reimport w = (.ok (), w')) :
    w'.bank = w.bank ∧ w'.supply = w.supply ∧ w'.staking = w.staking ∧ w'.time = w.time ∧ w'.height = w.height ∧
    w'.oracle = w.oracle ∧ w'.params = w.params ∧ w'.flag = false := reimport_outside_and_params w w' h

/-- non-vacuity: the empty module store meets the hypotheses, and the pending-redelegation state above does too — it is the
    derived stores, not a failed hypothesis, that make its round trip differ -/
example : RestartOK (clearModuleStore default) := restart_ok_empty default
example : RestartOK wRedel := by decide



/-- a restart cannot fail where the parameters are valid (INV-P): the only fallible step of `InitGenesis` is the parameter
    validation — so the restart theorem needs no "the restart succeeded" -/
theorem restart_never_fails (w : World) (hp : ParamsOK w) : ∃ w', reimport w = (.ok (), w') := reimport_never_fails w hp

theorem restart_succeeds_and_restores (w : World) (hok : RestartOK w) (hp : ParamsOK w) :
    ∃ w', reimport w = (.ok (), w') ∧ SameModuleState w w' ∧ RX w' ∧ w'.flag = false := restart_always_restores w hok hp

end C18
end Alliance
