/-
  C05 — User-operation liveness. The property as stated is FALSE for this code (known findings: pool-short claims
  D6, zero-token validators D8, precision collapse D14, negative share totals, sub-unit exits); what is proved are
  the exact conditions under which the share validation lets a user out, and the cases that are always live:
  * `exit_validation_cases`: `ValidateDelegatedAmount` fails in exactly one way of its own — the position holds fewer
    shares than the WHOLE part of the shares needed for the requested amount (and is not within 0.01 share of it);
    otherwise it returns the position's shares (full exit) or the computed amount;
  * `full_exit_within_tolerance`: a request within 0.01 share of the position takes the whole position — no dust stays;
  * `exit_never_takes_more_than_position`;
  * `claim_before_start_is_noop`: claiming on an asset whose rewards have not started always succeeds and changes nothing;
  * `nonpositive_amounts_rejected_upfront`, and the refutation `zero_token_validator_blocks_deposit` (D8): a validator
    with delegator shares but zero token value makes every deposit panic.
  Concrete histories are decided by the probes (every position claims and exits with its reported balance, every
  validator accepts 1 and 10¹² of every asset) on a discarded branch after every step.
-/
import AllianceProofs
import AllianceProofs.ArithTie
import AllianceProps.C08
namespace Alliance
namespace C05
open Dec

theorem exit_validation_cases (dlShares : Dec) (amt : Int) (info : ValInfo) (a : Asset) (s : Dec)
    (hs : delegationSharesFromTokens info a amt = .ok s) :
    (Dec.abs (dlShares - s) < rounder ∧ validateDelegatedAmount dlShares amt info a = .ok dlShares) ∨
    (¬ Dec.abs (dlShares - s) < rounder ∧ dlShares < truncateDec s ∧
        validateDelegatedAmount dlShares amt info a = .error (.err "insufficient_shares")) ∨
    (¬ Dec.abs (dlShares - s) < rounder ∧ ¬ dlShares < truncateDec s ∧ s > dlShares ∧
        validateDelegatedAmount dlShares amt info a = .ok dlShares) ∨
    (¬ Dec.abs (dlShares - s) < rounder ∧ ¬ dlShares < truncateDec s ∧ ¬ s > dlShares ∧
        validateDelegatedAmount dlShares amt info a = .ok s) := by
  unfold validateDelegatedAmount
  rw [hs]
  simp only [bind, Except.bind]
  by_cases h1 : Dec.abs (dlShares - s) < rounder
  · left; exact ⟨h1, by simp only [h1, if_true]; rfl⟩
  · right
    by_cases h2 : dlShares < truncateDec s
    · left; exact ⟨h1, h2, by simp only [h1, h2, if_false, if_true]; rfl⟩
    · right
      by_cases h3 : s > dlShares
      · left; exact ⟨h1, h2, h3, by simp only [h1, h2, h3, if_false, if_true]; rfl⟩
      · right; exact ⟨h1, h2, h3, by simp only [h1, h2, h3, if_false]; rfl⟩

theorem full_exit_within_tolerance (dlShares : Dec) (amt : Int) (info : ValInfo) (a : Asset) (s : Dec)
    (hs : delegationSharesFromTokens info a amt = .ok s) (h : Dec.abs (dlShares - s) < rounder) :
    validateDelegatedAmount dlShares amt info a = .ok dlShares := by
  rcases exit_validation_cases dlShares amt info a s hs with h1 | h1 | h1 | h1
  · exact h1.2
  · exact absurd h h1.1
  · exact absurd h h1.1
  · exact absurd h h1.1

theorem exit_never_takes_more_than_position (dlShares : Dec) (amt : Int) (info : ValInfo) (a : Asset) (r : Dec)
    (h : validateDelegatedAmount dlShares amt info a = .ok r) : r ≤ dlShares :=
  C08.validated_shares_at_most_position dlShares amt info a r h

theorem claim_before_start_is_noop (del : Acct) (val : AVal) (d : Denom) (w : World) (a : Asset)
    (ha : getAsset w d = some a) (hs : rewardsStarted a w.time = false) :
    claimDelegationRewards del val d w = (.ok ([], val), w) := by
  unfold claimDelegationRewards
  simp only [bind_apply, getW_apply, ha, hs, Bool.not_false, if_true, pure_apply]

theorem nonpositive_amounts_rejected_upfront (del : Acct) (v : ValId) (d : Denom) (amt : Int) (w : World) (h : amt ≤ 0) :
    msgDelegate del v d amt w = (.error (.err "invalid_amount"), w) ∧
    msgUndelegate del v d amt w = (.error (.err "invalid_amount"), w) := by
  unfold msgDelegate msgUndelegate
  have h' : ¬ amt > 0 := by omega
  simp only [bind_apply, guardE_apply, h, h', not_false_eq_true, if_true, and_self]

/-- D8 as a theorem: delegator shares left on a validator whose token value is zero make every deposit panic -/
theorem zero_token_validator_blocks_deposit (info : ValInfo) (a : Asset) (token : Int)
    (h1 : truncateInt (totalDelSharesWithDenom info a.denom) ≠ 0) (h2 : totalTokensWithAsset info a = 0) :
    delegationSharesFromTokens info a token = .error (.panic "div_zero") := by
  unfold delegationSharesFromTokens convertNewTokenToShares
  have h3 : totalDelSharesWithDenom info a.denom ≠ 0 := by
    intro e; rw [e] at h1; exact h1 (by decide)
  simp only [h1, if_false, h3, h2, if_true]

/-! ## the complete list of failure modes of the user operations -/

/-- for EVERY state and argument: when `MsgDelegate`, `MsgUndelegate`, `MsgRedelegate` or `MsgClaimDelegationRewards`
    fails, its error is one of `userModes` — the caller's own mistakes (amount, unknown asset or validator, no position,
    too many tokens, onward hop), a bank shortfall (own balance or the shared rewards pool), the distribution module's
    responses, or one of three arithmetic panics (negative share/coin amount, zero divisor). These last classes are
    exactly where the known findings of C05 live; nothing else can block a user (proof: AllianceProofs/FailModesUser) -/
theorem user_operation_failure_modes (op : Op) (w : World) (e : Err)
    (hop : match op with | .delegate .. | .undelegate .. | .redelegate .. | .claim .. => True | _ => False)
    (h : (step op w).1 = .error e) : e ∈ userModes := user_op_failure_modes op w e hop h

example : userModes = [.err "no_validator", .err "unknown_asset", .err "no_delegation", .err "insufficient_funds",
    .err "oracle_exhausted", .err "oracle_mismatch", .panic "neg_dec_coin", .panic "neg_coin", .panic "div_zero",
    .err "invalid_amount", .err "notfound_asset", .err "empty_denom", .err "insufficient_shares",
    .err "insufficient_tokens", .err "same_validator", .err "transitive"] := rfl

/-- the share validation every exit goes through is what the source says now (regenerated on every run) -/
theorem exit_validation_is_the_source (dl : Delegation) (amt : Int) (v : ValInfo) (a : Asset) :
    Generated.ValidateDelegatedAmount dl amt v a = validateDelegatedAmount dl.shares amt v a :=
  ArithTie.validateDelegatedAmount_is_source dl amt v a

/-- the amount guards of the three staking messages are pinned to the source text (`C16.msg_guards_as_modelled`): here only
    what the model does with them — a non-positive amount is refused before anything else -/
theorem amount_guard_is_strictly_positive (del : Acct) (v : ValId) (d : Denom) (amt : Int) (w : World) (h : amt ≤ 0) :
    (step (.undelegate del v d amt) w).1 = .error (.err "invalid_amount") ∧
    (step (.delegate del v d amt) w).1 = .error (.err "invalid_amount") := by
  constructor
  · show (asTx (msgUndelegate del v d amt) w).1 = _
    rw [asTx_apply]; unfold msgUndelegate
    simp [bind_apply, guardE_apply, h]
  · show (asTx (msgDelegate del v d amt) w).1 = _
    rw [asTx_apply]; unfold msgDelegate
    have : ¬ amt > 0 := by omega
    simp [bind_apply, guardE_apply, this]

end C05
end Alliance
