/-
  C03 — Share ledger consistency.
  Proved (every state, every argument):
  * `reset_on_empty`: when an asset's staked total is zero, `ResetAssetAndValidators` removes the asset's shares from
    EVERY validator record and zeroes the asset's share total — rounding dust cannot survive a staking cycle;
    `reset_noop_when_staked`: otherwise it writes nothing;
  * `deposit_credits_position`: `upsertDelegationWithNewTokens` adds to the position exactly the share amount it
    returns; `validator_totals_add_same_amounts` / `validator_totals_subtract`: `updateValidatorShares` adds (subtracts,
    with the sub-share clamp) exactly the coins it is given to the validator's delegator-share and asset-share totals
    (in `Delegate` the coin given is `mkDecCoins d` of the very amount `upsert…` returned);
  * `no_negative_share_coin_is_written`: `mkDecCoins` refuses a negative amount, `decCoinsSub` a negative result: no
    negative share quantity enters a validator total through them;
  * `clamp_only_below_one_share`: the clamped subtraction departs from exact subtraction only for an overdraft below
    one share.
  * the DELEGATOR side as an invariant of every history (`delegator_ledger_all_histories`, proof in
    AllianceProofs/ShareLedger + LedgerHistory): Σ delegations(v,d) = validator v's delegator-share total of d, positions
    non-negative, outside x/staking's removal of a validator record (D16).
  NOT proved — and false (known findings D13 `valshares_dust`, `negative_dust`): the asset side
  (Σ validators' asset shares = asset share total).
-/
import AllianceProofs
import AllianceProofs.ArithTie
namespace Alliance
namespace C03
open Dec

/-- with a zero staked total: every validator loses its shares of the asset, and the asset's share total is zero -/
theorem reset_on_empty (a : Asset) (w : World) (h0 : a.totalTokens = 0) :
    let w' := (resetAssetAndValidators a w).2
    (∀ p ∈ w'.vals, ∀ c ∈ p.2.valShares, c.1 ≠ a.denom) ∧
    getAsset w' a.denom = some { a with totalValShares := 0 } := by
  intro w'
  have hw : w' = { w with
      vals := w.vals.map (fun (p : ValId × ValInfo) => (p.1, { p.2 with valShares := p.2.valShares.filter fun c => c.1 ≠ a.denom })),
      assets := AL.set w.assets a.denom { a with totalValShares := 0 } } := by
    show (resetAssetAndValidators a w).2 = _
    unfold resetAssetAndValidators
    simp only [h0, ne_eq, not_true_eq_false, if_false, bind_apply, modifyW_apply, setAsset]
  rw [hw]
  constructor
  · intro p hp c hc
    simp only [List.mem_map] at hp
    obtain ⟨q, _, rfl⟩ := hp
    simp only [List.mem_filter, decide_eq_true_eq] at hc
    exact hc.2
  · unfold getAsset; simp only [AL.get_set_eq]

theorem reset_noop_when_staked (a : Asset) (w : World) (h0 : a.totalTokens ≠ 0) :
    resetAssetAndValidators a w = (.ok (), w) := by
  unfold resetAssetAndValidators
  simp only [h0, ne_eq, not_false_eq_true, if_true, pure_apply]

/-- a deposit adds to the position exactly the share amount that is returned (and later added to the validator total) -/
theorem deposit_credits_position (del : Acct) (val : AVal) (d : Denom) (amt : Int) (a : Asset) (w w' : World) (s : Dec)
    (h : upsertDelegationWithNewTokens del val d amt a w = (.ok s, w')) :
    (getDelegation w del val.id d = none ∧
      getDelegation w' del val.id d = some { del := del, val := val.id, denom := d, shares := s, hist := val.info.hist,
                                             lastClaimHeight := w.height }) ∨
    (∃ dl, getDelegation w del val.id d = some dl ∧
      AL.get w'.dels (dl.del, dl.val, dl.denom) = some { dl with shares := dl.shares + s }) := by
  unfold upsertDelegationWithNewTokens at h
  cases hs : delegationSharesFromTokens val.info a amt with
  | error e => rw [hs] at h; simp [liftE_error] at h
  | ok s0 =>
    rw [hs] at h
    simp only [bind_apply, liftE_ok, getW_apply] at h
    cases hg : getDelegation w del val.id d with
    | none =>
      rw [hg] at h
      simp only [setDelegation, modifyW_apply, pure_apply] at h
      injection h with h1 h2
      injection h1 with h1
      subst h1 h2
      exact Or.inl ⟨rfl, by unfold getDelegation; simp only [AL.get_set_eq]⟩
    | some dl =>
      rw [hg] at h
      simp only [setDelegation, modifyW_apply, pure_apply] at h
      injection h with h1 h2
      injection h1 with h1
      subst h1 h2
      exact Or.inr ⟨dl, rfl, by simp only [AL.get_set_eq]⟩

/-- `updateValidatorShares … true`: both totals grow by exactly the coins given, and the result is what is stored -/
theorem validator_totals_add_same_amounts (val : AVal) (ds vs : DecCoins) (w : World) :
    updateValidatorShares val ds vs true w =
      (.ok { val with info := { val.info with totalDelShares := DecCoins.add val.info.totalDelShares ds,
                                              valShares := DecCoins.add val.info.valShares vs } },
       { w with vals := AL.set w.vals val.id { val.info with totalDelShares := DecCoins.add val.info.totalDelShares ds,
                                                             valShares := DecCoins.add val.info.valShares vs } }) := by
  unfold updateValidatorShares
  simp only [if_true, bind_apply, pure, Except.pure, liftE_ok, setValidator, setValInfo, modifyW_apply, pure_apply]
  rfl

/-- `updateValidatorShares … false`: both totals shrink by the clamped subtraction of exactly the coins given -/
theorem validator_totals_subtract (val : AVal) (ds vs : DecCoins) (w w' : World) (val' : AVal)
    (h : updateValidatorShares val ds vs false w = (.ok val', w')) :
    subtractDecCoinsWithRounding val.info.totalDelShares ds = .ok val'.info.totalDelShares ∧
    subtractDecCoinsWithRounding val.info.valShares vs = .ok val'.info.valShares ∧
    AL.get w'.vals val.id = some val'.info := by
  unfold updateValidatorShares at h
  simp only [Bool.false_eq_true, if_false, bind_apply] at h
  cases h1 : subtractDecCoinsWithRounding val.info.totalDelShares ds with
  | error e => rw [h1] at h; simp [bind, Except.bind, liftE_error] at h
  | ok t1 =>
    cases h2 : subtractDecCoinsWithRounding val.info.valShares vs with
    | error e => rw [h1, h2] at h; simp [bind, Except.bind, liftE_error] at h
    | ok t2 =>
      rw [h1, h2] at h
      simp only [bind, Except.bind, pure, Except.pure, liftE_ok, setValidator, setValInfo, modifyW_apply] at h
      injection h with h3 h4
      injection h3 with h3
      subst h3 h4
      exact ⟨rfl, rfl, by simp only [AL.get_set_eq]⟩

/-- no negative share coin is constructed -/
theorem no_negative_share_coin_is_written (d : Denom) (x : Dec) (c : DecCoins) (h : mkDecCoins d x = .ok c) : 0 ≤ x := by
  unfold mkDecCoins at h
  split at h
  · cases h
  · unfold Dec at *; omega

/-- one step of the clamped subtraction: exact unless the overdraft is below one share, in which case what is there is taken -/
def clampedAmount (have_ want : Dec) : Dec := if want > have_ ∧ want - have_ < one then have_ else want

theorem clamp_only_below_one_share (have_ want : Dec) :
    clampedAmount have_ want = want ∨ (clampedAmount have_ want = have_ ∧ 0 < want - have_ ∧ want - have_ < one) := by
  unfold clampedAmount
  split
  · next h => right; exact ⟨rfl, by unfold Dec at *; omega, h.2⟩
  · left; rfl

/-! ## the delegator side as an invariant of every history -/

/-- what the ledger predicate says: for every validator and denom the delegations' shares sum to the per-denom total of
    the validator's recorded delegator shares (0 for a validator without record), no stored position is negative -/
theorem ledger_meaning (w : World) (h : L0 w) :
    (∀ v d, AL.sumBy (shareOf v d) w.dels = tdsL w.vals v d) ∧ (∀ p ∈ w.dels, 0 ≤ p.2.shares) :=
  ⟨fun v d => by have := h.sums v d; omega, h.nonneg⟩

/-- every operation except x/staking's removal of a validator record (D16), when it succeeds, keeps the ledger -/
theorem delegator_ledger_step (op : Op) (w w' : World) (h : step op w = (.ok (), w')) (hl : L0 w) (hak : AssetsKeyed w)
    (hop : LedgerScope op) : L0 w' := step_ledger op w w' h hl hak hop

/-- the four user operations keep it whether they succeed or fail -/
theorem user_ops_keep_ledger (op : Op) (w : World) (hl : L0 w)
    (hop : match op with | .delegate .. | .undelegate .. | .redelegate .. | .claim .. => True | _ => False) :
    L0 (step op w).2 := user_step_keeps_ledger op w hl hop

/-- C03 (delegator side) over all histories: operations with arbitrary non-negative distribution responses, failed
    transactions and environment steps; scope: the custody scope of C01 plus `LedgerScope` -/
theorem delegator_ledger_all_histories (d : Denom) (w w' : World) (hc : Core d w) (hl : L0 w) (hr : ReachL d w w') : L0 w' :=
  reach_ledger d w w' hc hl hr

/-- non-vacuity: the empty stores satisfy the ledger, and a concrete deposit is a history from them -/
example : L0 (default : World) := by
  refine ⟨List.Pairwise.nil, ?_, ?_, ?_, fun v d => rfl⟩
  · intro p hp; exact absurd hp (List.not_mem_nil)
  · intro p hp; exact absurd hp (List.not_mem_nil)
  · intro v i h; cases h

/-- non-vacuity of `reset_on_empty`: a validator holding 5 shares of an emptied asset -/
example :
    let a : Asset := { (default : Asset) with denom := 1, totalTokens := 0, totalValShares := 5 }
    let w : World := { (default : World) with vals := [(0, { hist := [], totalDelShares := [], valShares := [(1, 5)] })] }
    ((resetAssetAndValidators a w).2.vals.map (·.2.valShares)) = [[]] := by decide

/-- the clamped subtraction behind `ReduceShares` is what the source says now (regenerated from x/alliance/types/validator.go
    on every run, its `for … range` loop included; §4.3 of DESIGN.md) -/
theorem clamped_subtraction_is_the_source (d1s d2s : DecCoins) :
    Generated.SubtractDecCoinsWithRounding d1s d2s = subtractDecCoinsWithRounding d1s d2s :=
  ArithTie.subtractDecCoinsWithRounding_is_source d1s d2s


/-- a chain restart keeps the delegator-share ledger: delegations and validator infos come back exactly -/
theorem restart_keeps_the_ledger (w w' : World) (hok : RestartOK w) (hl : L0 w) (h : reimport w = (.ok (), w')) : L0 w' :=
  restart_keeps_ledger w w' hok hl h


/-- a state in which the asset-side sum holds: asset 1 has 5 validator shares, all of them on validator 0, and no delegation
    is left on that validator (the residue of exits at a share price ≠ 1) -/
def wResidue : World :=
  { (default : World) with
    assets := [(1, { (default : Asset) with denom := 1, totalTokens := 7, totalValShares := 5 })],
    vals := [(0, { hist := [], totalDelShares := [], valShares := [(1, 5)] })] }

/-- REFUTES the asset-side sum (known finding D21 `validator_removed_residual_shares`): x/staking's removal of the validator
    deletes its alliance record; the asset's share total keeps the 5 shares no validator holds any more -/
theorem validator_removal_strands_residual_shares :
    (wResidue.vals.map (fun p => DecCoins.sumOf p.2.valShares 1)).sum = 5 ∧
    ((afterValidatorRemoved 0 wResidue).2.vals.map (fun p => DecCoins.sumOf p.2.valShares 1)).sum = 0 ∧
    (getAsset (afterValidatorRemoved 0 wResidue).2 1).map (·.totalValShares) = some 5 := by decide


/-- the same with NO custody scope: along every history of operations on any response tape (outside D16), failed transactions and
    environment steps that leave the record stores alone, the delegator-share ledger holds — "asset records are keyed by their
    denom", the one thing the custody scope was needed for, is part of `Stores`, which every keeper function keeps -/
theorem delegator_ledger_all_histories_unscoped (w w' : World) (hs : Stores w) (hl : L0 w) (hr : ReachLS w w') : L0 w' :=
  (reach_ledger_unscoped w w' hs hl hr).1


/-- a state in which the asset's share total (5) has fallen below the one validator's shares (10) — D13's drift, exaggerated —
    with a single delegator holding all delegator shares of the validator; the asset's staked total is 10 tokens -/
def wDrift : World :=
  { (default : World) with
    time := 100,
    assets := [(1, { (default : Asset) with denom := 1, weight := one, wmin := 0, wmax := 2 * one, totalTokens := 10, totalValShares := 5 * one, startTime := 1000, changeRate := one, isInit := true })],
    vals := [(0, { hist := [], totalDelShares := [(1, one)], valShares := [(1, 10 * one)] })],
    dels := [((10, 0, 1), { del := 10, val := 0, denom := 1, shares := one, hist := [], lastClaimHeight := 0 })],
    bank := [((accModule, 1), 10)],
    staking := { bondDenom := 9, unbondingTime := 50, vals := [(0, { status := 3, jailed := false, tokens := 100, delShares := 100 * one, modShares := none })] },
    params := { rewardDelay := 0, takeRateInterval := 1, lastTakeRateClaim := 0 } }

/-- REFUTES "the staked total is never negative" and with it the premise `0 ≤ staked` of `custody_covers` (known finding D23
    `negative_total_from_share_drift`): the validator's token value (20) exceeds the asset's staked total (10), the delegator's
    reported balance is 20, `Undelegate` of it succeeds, the staked total becomes −10 and the queue owes 20 while custody holds 10 -/
theorem last_delegator_out_takes_more_than_the_total :
    (step (.undelegate 10 0 1 20) wDrift).1.toBool = true ∧
    (getAsset (step (.undelegate 10 0 1 20) wDrift).2 1).map (·.totalTokens) = some (-10) ∧
    (step (.undelegate 10 0 1 20) wDrift).2.undelQueue = [((150, 10), [{ del := 10, val := 0, denom := 1, amount := 20 }])] ∧
    bankBalance (step (.undelegate 10 0 1 20) wDrift).2 accModule 1 = 10 := by
  refine ⟨by decide +kernel, by decide +kernel, by decide +kernel, by decide +kernel⟩

/-- … and the custody gap of that state is 0: `gap ≥ 0` alone does not mean custody covers the pending payouts once the staked
    total is negative — which is why `custody_covers` (C01) carries the premise `0 ≤ staked` -/
theorem zero_gap_without_cover :
    gap (step (.undelegate 10 0 1 20) wDrift).2 1 = 0 ∧ pending (step (.undelegate 10 0 1 20) wDrift).2 1 = 20 ∧
    custody (step (.undelegate 10 0 1 20) wDrift).2 1 = 10 := by
  refine ⟨by decide +kernel, by decide +kernel, by decide +kernel⟩


/-- the converse of D23: where the asset's share total has NOT drifted below the validators' sum (Σ vs ≤ TotalValidatorShares) the
    validators' token values add up to at most the staked total plus n roundings of the conversion — no reported balance can
    exceed the staked total by more than that. The drift of D13 is exactly what D23 needs -/
theorem validator_values_add_up_to_at_most_the_total (a : Asset) (hT : 0 ≤ a.totalTokens) (hTVS : 0 < a.totalValShares)
    (infos : List ValInfo) (hvs : ∀ i ∈ infos, 0 ≤ valSharesWithDenom i a.denom)
    (hsum : (infos.map (fun i => valSharesWithDenom i a.denom)).sum ≤ a.totalValShares) :
    (infos.map (fun i => totalTokensWithAsset i a)).sum * (P * P * a.totalValShares) ≤
      a.totalValShares * ofInt a.totalTokens * (P * P) +
      (infos.length : Int) * ((H + 1) * a.totalValShares * ofInt a.totalTokens + H * P * a.totalValShares) :=
  validator_values_sum_le_total a hT hTVS infos hvs hsum

/-- … and within a validator: positions whose shares add up to the validator's delegator-share total (the ledger) are worth, before
    the final `+ 0.01` and truncation, at most the validator's value plus n roundings -/
theorem position_values_add_up_to_at_most_the_validator (tds V : Dec) (hV : 0 ≤ V) (htds : 0 < tds) (shares : List Dec)
    (hs : ∀ x ∈ shares, 0 ≤ x) (hsum : shares.sum = tds) :
    (shares.map (fun x => convertNewShareToDecToken V tds x)).sum * (P * P * tds) ≤
      tds * V * (P * P) + (shares.length : Int) * ((H + 1) * tds * V + H * P * tds) := by
  have := position_values_sum tds V hV htds shares hs
  rw [hsum] at this
  exact this

end C03
end Alliance
