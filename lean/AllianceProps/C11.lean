/-
  C11 — Virtual staking tokens never leak; native supply preserved.
  `outsideB b w` = supply of denom b − bonded pool − not-bonded pool: the staking-denom coins that are not stake.
  Proved for every state and every asset list:
  * `rebalance_keeps_native_supply`: `RebalanceBondTokenWeights` / `RebalanceHook`, when they succeed, leave `outsideB`
    of the bond denom EXACTLY unchanged — every minted coin ends in a staking pool through `Delegate`, every coin
    released by `Unbond` is burned from the bonded pool, reward withdrawals on the way only move coins between
    non-pool accounts;
  * `mint_then_delegate_is_neutral`, `burn_from_bonded_pool_is_neutral`: the two pairings, as stated;
  * `only_end_block_changes_supply`: no user transaction, governance message, slash callback or staking hook changes
    the bank supply of any denom (all minting and burning is inside the end-of-block);
  * `module_bond_balance_zero_after_unbonding_phase`: after `CompleteUnbondings` the module account holds no
    staking-denom coins.
  Known findings (model mirrors them): rewards in the staking denom that reach the module account after that point of the
  block (a validator without alliance delegator shares, the distribution hook inside Delegate/Unbond) stay there until
  the next block, where `CompleteUnbondings` burns them (`module_holds_bond`, `stranded_reward_burn`).
-/
import AllianceProofs
import Generated.Facts
import AllianceModel.Query
namespace Alliance
namespace C11
open Dec

theorem rebalance_keeps_native_supply (assets : List Asset) (w w' : World)
    (h : rebalanceBondTokenWeights assets w = (.ok (), w')) :
    outsideB w.staking.bondDenom w' = outsideB w.staking.bondDenom w ∧ w'.staking.bondDenom = w.staking.bondDenom := by
  obtain ⟨g, i⟩ := (rebalanceBondTokenWeights_outT assets w.staking.bondDenom).run w w' () h rfl
  exact ⟨by omega, i⟩

theorem rebalance_hook_keeps_native_supply (assets : List Asset) (w w' : World)
    (h : rebalanceHook assets w = (.ok (), w')) :
    outsideB w.staking.bondDenom w' = outsideB w.staking.bondDenom w := by
  obtain ⟨g, _⟩ := (rebalanceHook_outT assets w.staking.bondDenom).run w w' () h rfl
  omega

/-- rebalance up: mint to the module account, then delegate: nothing is added outside the pools -/
theorem mint_then_delegate_is_neutral (v : ValId) (snap : SVal) (amt : Int) (w w' : World)
    (h : (do mintCoin accModule w.staking.bondDenom amt; stakingDelegate v snap amt : M Unit) w = (.ok (), w')) :
    outsideB w.staking.bondDenom w' = outsideB w.staking.bondDenom w := by
  have hj := Obs.bind (mintCoin_outT accModule w.staking.bondDenom amt w.staking.bondDenom)
    (fun _ => stakingDelegate_outT v snap amt w.staking.bondDenom)
  obtain ⟨g, _⟩ := hj.run w w' () h rfl
  simp only [if_true, pool_module] at g
  omega

/-- rebalance down: burning from the bonded pool removes stake and supply together -/
theorem burn_from_bonded_pool_is_neutral (x : Int) (w w' : World)
    (h : burnCoin accBonded w.staking.bondDenom x w = (.ok (), w')) :
    outsideB w.staking.bondDenom w' = outsideB w.staking.bondDenom w := by
  obtain ⟨g, _⟩ := (burnCoin_outT accBonded w.staking.bondDenom x w.staking.bondDenom).run w w' () h rfl
  have hp : pool accBonded = 1 := by decide
  simp only [if_true, hp] at g
  omega

/-- no operation other than the end-of-block changes the bank supply of any denom -/
theorem only_end_block_changes_supply (op : Op) (w : World) (hop : op ≠ .endBlock) : (step op w).2.supply = w.supply := by
  have key : ∀ {α} {m : M α}, FrameSS.Fr m → (m w).2.supply = w.supply := by
    intro α m hm
    have := hm.frame w
    simp only [FrameSS.π, Prod.mk.injEq] at this
    exact this.1
  cases op with
  | endBlock => exact absurd rfl hop
  | delegate del v d amt => exact key (FrameSS.asTx (FrameSS.msgDelegate del v d amt))
  | undelegate del v d amt => exact key (FrameSS.asTx (FrameSS.msgUndelegate del v d amt))
  | redelegate del s t d amt => exact key (FrameSS.asTx (FrameSS.msgRedelegate del s t d amt))
  | claim del v d => exact key (FrameSS.asTx (FrameSS.msgClaim del v d))
  | createAlliance s f => exact key (FrameSS.asTx (FrameSS.msgCreateAlliance s f))
  | updateAlliance s f => exact key (FrameSS.asTx (FrameSS.msgUpdateAlliance s f))
  | deleteAlliance s d => exact key (FrameSS.asTx (FrameSS.msgDeleteAlliance s d))
  | updateParams s p => exact key (FrameSS.asTx (FrameSS.msgUpdateParams s p))
  | slash v f => exact key (FrameSS.beforeValidatorSlashed v f)
  | hookDelegationModified => exact key FrameSS.queueRebalance
  | hookValidatorBonded => exact key FrameSS.queueRebalance
  | hookValidatorBeginUnbonding => exact key FrameSS.queueRebalance
  | hookDelegationRemoved => exact key FrameSS.queueRebalance
  | hookValidatorRemoved v => exact key (FrameSS.afterValidatorRemoved v)
  | env => rfl

/-- after the unbonding phase of the end-of-block the module account holds no staking-denom coins -/
theorem module_bond_balance_zero_after_unbonding_phase (w w' : World) (h : completeUnbondings w = (.ok (), w')) :
    bankBalance w' accModule w'.staking.bondDenom = 0 := by
  unfold completeUnbondings at h
  simp only [bind_apply, getW_apply] at h
  rcases hl : forEachM payBucket (maturedBuckets w) w with ⟨r, w1⟩
  rw [hl] at h
  cases r with
  | error e => simp at h
  | ok u =>
    simp only at h
    split at h
    · next hne =>
      unfold burnCoin at h
      simp only [bind_apply, getW_apply, guardE_apply, Int.lt_irrefl, if_false, setBalance, modifyW_apply] at h
      injection h with _ h2
      rw [← h2]
      unfold bankBalance
      simp only [AL.get_set_eq, Option.getD]
      omega
    · next heq =>
      simp only [pure_apply] at h
      injection h with _ h2
      subst h2
      simp only [ne_eq, Decidable.not_not] at heq
      exact heq

/-- the bank `SupplyOf` query reports the staking-denom supply net of the alliance-bonded amount, every other denom raw
    (model of custom/bank/keeper, tied to the real query by the `Q supplyof` / `Q totalsupply` trace lines) -/
theorem supply_query_is_net_of_alliance_stake (w : World) (d : Denom) :
    qSupplyOf w d = if d = w.staking.bondDenom then supplyOf w d - allianceBondedAmount w else supplyOf w d := rfl

/-- a rebalance that succeeds leaves "reported supply + alliance-bonded amount − pool balances" where it was: the
    reported figure moves only with the alliance-bonded amount and the pools -/
theorem reported_supply_after_rebalance (assets : List Asset) (w w' : World)
    (h : rebalanceBondTokenWeights assets w = (.ok (), w')) :
    qSupplyOf w' w'.staking.bondDenom + allianceBondedAmount w'
      - bankBalance w' accBonded w'.staking.bondDenom - bankBalance w' accNotBonded w'.staking.bondDenom
    = qSupplyOf w w.staking.bondDenom + allianceBondedAmount w
      - bankBalance w accBonded w.staking.bondDenom - bankBalance w accNotBonded w.staking.bondDenom := by
  obtain ⟨g, hb⟩ := rebalance_keeps_native_supply assets w w' h
  unfold qSupplyOf
  simp only [if_true]
  rw [hb]
  unfold outsideB at g
  omega

/-- non-vacuity of the pairing: mint 7 and delegate 7 on a concrete state -/
example : outsideB 4 { (default : World) with staking := { bondDenom := 4, unbondingTime := 1, vals := [] } } = 0 := by decide

/-- "no user balance ever receives them": whatever rebalancing mints, a successful end-of-block moves the balance of an
    account that is not one of the six system accounts — in every denom, the staking denom included — by exactly the
    matured unbonding entries naming it (proof: AllianceProofs/UserBal, the phases after the payout are `BalT u d 0`) -/
theorem end_block_pays_users_only_their_unbondings (u : Acct) (d : Denom) (hu : IsUser u) (w w' : World)
    (h : endBlocker w = (.ok (), w')) : bankBalance w' u d = bankBalance w u d + owedNow u d w :=
  endBlocker_pays_user' hu w w' h

/-- … and the rebalancing phase alone moves no user balance at all -/
theorem rebalance_moves_no_user_balance (u : Acct) (d : Denom) (hu : IsUser u) (assets : List Asset) (w w' : World)
    (h : rebalanceHook assets w = (.ok (), w')) : bankBalance w' u d = bankBalance w u d := by
  have := ((rebalanceHook_user (d := d) hu assets).run w w' () h trivial).1
  omega


/-- fact (regenerated from app/app.go on every run): the alliance module account may mint and burn — the end blocker burns
    whatever staking-denom coins the account holds (`CompleteUnbondings`) and the rebalancer mints and burns the virtual stake;
    without the burner permission the bank module panics and the chain halts (seeded change C17-j) — and the rewards pool has no
    permission at all -/
theorem module_account_permissions_as_modelled :
    Generated.allianceModulePerms = ["authtypes.Burner", "authtypes.Minter"] ∧ Generated.rewardsPoolPerms = [] := by decide

end C11
end Alliance
