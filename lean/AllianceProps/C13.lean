/-
  C13 — Reward entitlement: idempotence of claiming and stake-neutrality.
  `accumulateRewards` pays nothing for indices the position has already been settled at; hence an immediate second
  claim pays nothing. (The pro-rata split and the rounding bound are covered by the correspondence of the reward
  indices and by the monitors; the redelegation path D7 was repaired by a `fix:` commit.)
-/
import AllianceProofs
import AllianceProps.C03
namespace Alliance
namespace C13
open Dec

/-- every index of `latest` is already reached by the position's history -/
def Dominated (latest hist : List RewardHistory) : Prop :=
  ∀ h ∈ latest, ∃ r, histFind hist h.denom h.alliance = some r ∧ r.index ≥ h.index

/-- nothing accrued since the last settlement ⇒ nothing is paid and the history is left as it is -/
theorem accumulate_nothing (latest hist : List RewardHistory) (a : Asset) (weight shares : Dec) (info : ValInfo)
    (t : Int) (ht : delegationTokensWithShares shares info a = .ok t) (hd : Dominated latest hist) :
    accumulateRewards latest hist a weight shares info = .ok ([], hist) := by
  unfold accumulateRewards
  rw [ht]
  simp only [bind, Except.bind]
  induction latest with
  | nil => rfl
  | cons h rest ih =>
    rw [List.foldlM_cons]
    obtain ⟨r, hr, hge⟩ := hd h List.mem_cons_self
    simp only [hr, bind, Except.bind]
    have : r.index ≥ h.index := hge
    simp only [this, if_true, pure, Except.pure]
    exact ih (fun h' hh' => hd h' (List.mem_cons_of_mem _ hh'))

/-- histories written by `AddAssetsToRewardPool` have one entry per (reward denom, alliance) -/
def Unique (hist : List RewardHistory) : Prop :=
  ∀ h ∈ hist, histFind hist h.denom h.alliance = some h

theorem dominated_self (hist : List RewardHistory) (hu : Unique hist) : Dominated hist hist :=
  fun h hh => ⟨h, hu h hh, Int.le_refl _⟩

/-- an immediate second claim pays nothing: a position whose history equals the validator's current history for the
    alliance (which is what a claim writes), with no weight-change snapshot ahead of it, is entitled to no coins -/
theorem second_claim_pays_nothing (w : World) (dl : Delegation) (info : ValInfo) (a : Asset) (t : Int)
    (ht : delegationTokensWithShares dl.shares info a = .ok t)
    (hsettled : histFilterByAlliance dl.hist a.denom = histFilterByAlliance info.hist a.denom)
    (hu : Unique (histFilterByAlliance info.hist a.denom))
    (hsnap : snapshotsFrom w a.denom dl.val dl.lastClaimHeight = []) :
    calculateDelegationRewards w dl info a = .ok ([], histFilterByAlliance info.hist a.denom) := by
  unfold calculateDelegationRewards
  simp only [hsnap, List.foldlM_nil, bind, Except.bind, pure, Except.pure, hsettled]
  rw [accumulate_nothing _ _ a a.weight dl.shares info t ht (dominated_self _ hu)]
  simp only [Coins.add, Coins.removeZero]

/-- claiming never changes a staked value: `ClaimDelegationRewards` writes only the position's reward history and
    claim height (shares untouched), the validator's reward indices, and bank balances -/
theorem claim_keeps_assets (del : Acct) (val : AVal) (d : Denom) (w : World) :
    (claimDelegationRewards del val d w).2.assets = w.assets :=
  (claimDelegationRewards_frame del val d).frame w

/-- non-vacuity of `Unique`/`Dominated`: a two-entry history -/
example : Unique [{ denom := 3, alliance := some 0, index := 5 }, { denom := 4, alliance := some 0, index := 7 }] := by
  intro h hh
  simp only [List.mem_cons, List.mem_nil_iff, or_false] at hh
  rcases hh with rfl | rfl <;> rfl

/-- not retroactive, new positions: the record `Delegate`/`Redelegate` create for a delegator without a position starts at
    the validator's CURRENT reward indices (and the current height), so it is entitled to nothing that accrued before it
    existed — an immediate claim pays no coin -/
theorem new_position_is_not_retroactive (del : Acct) (val : AVal) (d : Denom) (amt : Int) (a : Asset) (w w' : World) (s : Dec)
    (h : upsertDelegationWithNewTokens del val d amt a w = (.ok s, w'))
    (hnone : getDelegation w del val.id d = none) (t : Int)
    (ht : delegationTokensWithShares s val.info a = .ok t)
    (hu : Unique (histFilterByAlliance val.info.hist a.denom))
    (hsnap : snapshotsFrom w' a.denom val.id w.height = []) :
    ∃ dl, getDelegation w' del val.id d = some dl ∧ dl.shares = s ∧
      calculateDelegationRewards w' dl val.info a = .ok ([], histFilterByAlliance val.info.hist a.denom) := by
  rcases C03.deposit_credits_position del val d amt a w w' s h with ⟨_, hnew⟩ | ⟨dl, hdl, _⟩
  · refine ⟨_, hnew, rfl, ?_⟩
    exact second_claim_pays_nothing w' _ val.info a t ht rfl hu hsnap
  · rw [hnone] at hdl; cases hdl

/-- not retroactive, top-ups: a deposit into an existing position changes its shares only — the reward indices it was
    settled at (by the claim `Delegate` performs first) stay -/
theorem top_up_keeps_settlement (del : Acct) (val : AVal) (d : Denom) (amt : Int) (a : Asset) (w w' : World) (s : Dec)
    (h : upsertDelegationWithNewTokens del val d amt a w = (.ok s, w')) (dl : Delegation)
    (hdl : getDelegation w del val.id d = some dl) :
    ∃ dl', AL.get w'.dels (dl.del, dl.val, dl.denom) = some dl' ∧ dl'.hist = dl.hist ∧
      dl'.lastClaimHeight = dl.lastClaimHeight ∧ dl'.shares = dl.shares + s := by
  rcases C03.deposit_credits_position del val d amt a w w' s h with ⟨hn, _⟩ | ⟨dl2, hdl2, hget⟩
  · rw [hdl] at hn; cases hn
  · rw [hdl] at hdl2
    injection hdl2 with e
    subst e
    exact ⟨_, hget, rfl, rfl, rfl⟩


/-- stake-neutral: a successful claim changes no share quantity — no position's shares, no validator's share totals, no
    asset record (AllianceProofs/StakeNeutral) -/
theorem claim_is_stake_neutral' (del : Acct) (v : ValId) (d : Option Denom) (w w' : World) (hk : KD w)
    (h : step (.claim del v d) w = (.ok (), w')) : SV w w' := claim_is_stake_neutral del v d w w' hk h

/-- a successful `MsgClaimDelegationRewards` changes the claimant's balance by the coins the claim computed (and no other
    user's balance at all: `C04.other_users_balances_untouched`) -/
theorem claim_pays_the_claimant (del : Acct) (hu : IsUser del) (v : ValId) (dn d : Denom) (w w' : World)
    (h : step (.claim del v (some dn)) w = (.ok (), w')) :
    ∃ coins, bankBalance w' del d = bankBalance w del d + Coins.sumOf coins d :=
  claim_pays_the_claimant_exactly del hu v dn d w w' h


/-- pro-rata, how exact: the normalised weights `Quo(srw_a, Σ srw)` a reward is split by sum to 1 to within n/2 units of
    the 18th digit — (Σ nw)·10¹⁸ ∈ [10³⁶ − n·(H+1), 10³⁶ + n·H] for n assets with non-negative staked reward weights -/
theorem split_weights_sum_to_one (l : List Dec) (hl : ∀ x ∈ l, 0 ≤ x) (ht : 0 < l.sum) :
    (l.map (fun x => quo x l.sum)).sum * P ≤ P2 + (l.length : Int) * H ∧
    P2 ≤ (l.map (fun x => quo x l.sum)).sum * P + (l.length : Int) * (H + 1) := split_weights_sum l hl ht

/-- the divisor `AddAssetsToRewardPool` accumulates is that sum -/
theorem split_total_is_the_sum {α : Type} (srw : α → Dec) (as : List α) :
    as.foldl (fun acc a => acc + srw a) 0 = (as.map srw).sum := by
  have := foldl_add_sum srw as 0
  simp only [Int.zero_add] at this
  exact this

/-- each normalised weight is within (½ + 10⁻¹⁸) units of the 18th digit of srw/Σ -/
theorem normalised_weight_is_the_quotient (a b : Dec) (ha : 0 ≤ a) (hb : 0 < b) :
    quo a b * P * b ≤ a * P2 + H * b ∧ a * P2 ≤ quo a b * P * b + (H + 1) * b := quo_bounds a b ha hb

/-- non-vacuity: three equal weights — each normalised weight is 0.333…, the sum is 1 − 10⁻¹⁸ -/
example : ([one, one, one].map (fun x => quo x (3 * one))).sum = P - 1 := by decide


/-- "a claim pays the accumulated entitlement to within one base unit per claim and reward denomination": what one claimed
    history entry pays, TruncateInt(Mul(Δ, t)) for index difference Δ and token value t, against the exact product —
    paid·10³⁶ ≤ Δ·t + H and Δ·t − H < (paid+1)·10³⁶ -/
theorem one_entry_pays_within_one_unit (Δ t : Dec) (hΔ : 0 ≤ Δ) (ht : 0 ≤ t) :
    let paid := truncateInt (mul Δ t)
    paid * P * P ≤ Δ * t + H ∧ Δ * t - H < (paid + 1) * P * P := claim_entry_bound Δ t hΔ ht

/-- pro-rata within an asset, end to end: a reward part m (raw) spread by one index move over token value tt and claimed at
    once by a position of token value t pays at most m·t/tt + ½·10⁻¹⁸·t + ½·10⁻¹⁸ and at least that minus one base unit and
    the same roundings (cross-multiplied by 10⁵⁴·tt) -/
theorem position_gets_its_share (m tt t : Dec) (hm : 0 ≤ m) (htt : 0 < tt) (ht : 0 ≤ t) :
    let bump := quo m tt
    let paid := truncateInt (mul bump t)
    paid * P * P * (P * tt) ≤ m * P2 * t + H * tt * t + H * (P * tt) ∧
    m * P2 * t ≤ (paid + 1) * P * P * (P * tt) + (H + 1) * tt * t + H * (P * tt) :=
  ⟨position_payout_upper m tt t hm htt ht, position_payout_lower m tt t hm htt ht⟩

/-- non-vacuity: a part of 10 tokens over 4 staked tokens, position of 1 token: 2.5 → pays 2 -/
example : truncateInt (mul (quo (10 * one) 4) 1) = 2 := by decide


/-- every successful user operation SETTLES THE VALIDATOR FIRST, whatever the validator's status: where the module account has
    a native delegation to it, a successful claim of a started asset consumes exactly one distribution response — the one for
    this validator — i.e. everything x/distribution held for it was withdrawn and indexed (seeded change C13-g, an early
    return for validators outside the active set, is the negation of this) -/
theorem a_claim_settles_the_validator (del : Acct) (v : ValId) (dn : Denom) (w w' : World)
    (h : step (.claim del v (some dn)) w = (.ok (), w')) (a : Asset) (hga : getAsset w dn = some a)
    (hst : rewardsStarted a w.time = true) (hd : ModDelegates w v) :
    ∃ cs, w.oracle = (v, cs) :: w'.oracle := msgClaim_settles del v dn w w' h a hga hst hd

/-- not retroactive, at the root: a successful deposit withdraws and indexes what was pending for the validator BEFORE the new
    shares are issued — for an existing position (through its claim) and for a new one (directly) -/
theorem a_deposit_settles_the_validator_first (del : Acct) (v : ValId) (dn : Denom) (amt : Int) (w w' : World)
    (h : step (.delegate del v dn amt) w = (.ok (), w')) (a : Asset) (hga : getAsset w dn = some a)
    (hst : rewardsStarted a w.time = true) (hd : ModDelegates w v) :
    ∃ cs, w.oracle = (v, cs) :: w'.oracle := msgDelegate_settles del v dn amt w w' h a hga hst hd

theorem a_withdrawal_settles_the_validator_first (del : Acct) (val : AVal) (dn : Denom) (amt : Int) (w w' : World)
    (h : undelegate del val dn amt w = (.ok (), w')) (a : Asset) (hga : getAsset w dn = some a)
    (hst : rewardsStarted a w.time = true) (hd : ModDelegates w val.id) :
    ∃ cs, w.oracle = (val.id, cs) :: w'.oracle := undelegate_settles del val dn amt w w' h a hga hst hd

/-- a redelegation settles the source and then the destination, and consumes nothing else -/
theorem a_redelegation_settles_both_validators_first (del : Acct) (src dst : AVal) (dn : Denom) (amt : Int) (w w' : World)
    (h : redelegate del src dst dn amt w = (.ok (), w')) (a : Asset) (hga : getAsset w dn = some a)
    (hst : rewardsStarted a w.time = true) (hds : ModDelegates w src.id) (hdd : ModDelegates w dst.id) :
    ∃ cs1 cs2, w.oracle = (src.id, cs1) :: (dst.id, cs2) :: w'.oracle :=
  redelegate_settles del src dst dn amt w w' h a hga hst hds hdd


/-- stake-neutral, with no hypothesis on the state: in every state of every history from the empty module store (operations,
    failed transactions, environment steps, restarts) a successful claim changes no share quantity (`KD` follows from
    `Stores`, which every keeper function keeps) -/
theorem claim_is_stake_neutral_everywhere (w0 w w' : World) (hr : ReachG (clearModuleStore w0) w)
    (del : Acct) (v : ValId) (d : Option Denom) (h : step (.claim del v d) w = (.ok (), w')) : SV w w' :=
  claim_is_stake_neutral_in_every_history w0 w w' hr del v d h


/-- the reward-history filter every claim starts from is what the source says now (regenerated from x/alliance/types/params.go
    on every run: a `for … range` loop appending to a named result; legacy entries without an alliance are kept) -/
theorem reward_history_filter_is_the_source (r : List RewardHistory) (a : Denom) :
    Generated.GetIndexByAlliance r a = .ok (histFilterByAlliance r a) := ArithTie.getIndexByAlliance_is_source r a


/-- … and at the level of the messages (the statement instantiated on every observed step, `theorem.C13`) -/
theorem msg_undelegate_settles_the_validator_first (del : Acct) (v : ValId) (dn : Denom) (amt : Int) (w w' : World)
    (h : step (.undelegate del v dn amt) w = (.ok (), w')) (a : Asset) (hga : getAsset w dn = some a)
    (hst : rewardsStarted a w.time = true) (hd : ModDelegates w v) :
    ∃ cs, w.oracle = (v, cs) :: w'.oracle := msgUndelegate_settles del v dn amt w w' h a hga hst hd

theorem msg_redelegate_settles_both_validators_first (del : Acct) (s t : ValId) (dn : Denom) (amt : Int) (w w' : World)
    (h : step (.redelegate del s t dn amt) w = (.ok (), w')) (a : Asset) (hga : getAsset w dn = some a)
    (hst : rewardsStarted a w.time = true) (hds : ModDelegates w s) (hdd : ModDelegates w t) :
    ∃ cs1 cs2, w.oracle = (s, cs1) :: (t, cs2) :: w'.oracle := msgRedelegate_settles del s t dn amt w w' h a hga hst hds hdd

end C13
end Alliance
