/-
  C13 — Reward entitlement: idempotence of claiming and stake-neutrality.
  `accumulateRewards` pays nothing for indices the position has already been settled at; hence an immediate second
  claim pays nothing. (The pro-rata split and the rounding bound are covered by the correspondence of the reward
  indices and by the monitors; the redelegation path D7 was repaired by a `fix:` commit.)
-/
import AllianceProofs
namespace Alliance
namespace C13
open Dec

/-- every index of `latest` is already reached by the position's history -/
def Dominated (latest hist : List RewardHistory) : Prop :=
  ∀ h ∈ latest, ∃ r, histFind hist h.denom h.alliance = some r ∧ r.index ≥ h.index

/-- nothing accrued since the last settlement ⇒ nothing is paid and the history is left as it is -/
theorem accumulate_nothing (latest hist : List RewardHistory) (a : Asset) (weight shares : Dec) (info : ValInfo)
    (t : Int) (ht : delegationTokensWithShares shares info a = .ok t) (hd : Dominated latest hist) :
    accumulateRewards latest hist a weight shares info = .ok ([], hist) := by
  unfold accumulateRewards
  rw [ht]
  simp only [bind, Except.bind]
  induction latest with
  | nil => rfl
  | cons h rest ih =>
    rw [List.foldlM_cons]
    obtain ⟨r, hr, hge⟩ := hd h List.mem_cons_self
    simp only [hr, bind, Except.bind]
    have : r.index ≥ h.index := hge
    simp only [this, if_true, pure, Except.pure]
    exact ih (fun h' hh' => hd h' (List.mem_cons_of_mem _ hh'))

/-- histories written by `AddAssetsToRewardPool` have one entry per (reward denom, alliance) -/
def Unique (hist : List RewardHistory) : Prop :=
  ∀ h ∈ hist, histFind hist h.denom h.alliance = some h

theorem dominated_self (hist : List RewardHistory) (hu : Unique hist) : Dominated hist hist :=
  fun h hh => ⟨h, hu h hh, Int.le_refl _⟩

/-- an immediate second claim pays nothing: a position whose history equals the validator's current history for the
    alliance (which is what a claim writes), with no weight-change snapshot ahead of it, is entitled to no coins -/
theorem second_claim_pays_nothing (w : World) (dl : Delegation) (info : ValInfo) (a : Asset) (t : Int)
    (ht : delegationTokensWithShares dl.shares info a = .ok t)
    (hsettled : histFilterByAlliance dl.hist a.denom = histFilterByAlliance info.hist a.denom)
    (hu : Unique (histFilterByAlliance info.hist a.denom))
    (hsnap : snapshotsFrom w a.denom dl.val dl.lastClaimHeight = []) :
    calculateDelegationRewards w dl info a = .ok ([], histFilterByAlliance info.hist a.denom) := by
  unfold calculateDelegationRewards
  simp only [hsnap, List.foldlM_nil, bind, Except.bind, pure, Except.pure, hsettled]
  rw [accumulate_nothing _ _ a a.weight dl.shares info t ht (dominated_self _ hu)]
  simp only [Coins.add, Coins.removeZero]

/-- claiming never changes a staked value: `ClaimDelegationRewards` writes only the position's reward history and
    claim height (shares untouched), the validator's reward indices, and bank balances -/
theorem claim_keeps_assets (del : Acct) (val : AVal) (d : Denom) (w : World) :
    (claimDelegationRewards del val d w).2.assets = w.assets :=
  (claimDelegationRewards_frame del val d).frame w

/-- non-vacuity of `Unique`/`Dominated`: a two-entry history -/
example : Unique [{ denom := 3, alliance := some 0, index := 5 }, { denom := 4, alliance := some 0, index := 7 }] := by
  intro h hh
  simp only [List.mem_cons, List.mem_nil_iff, or_false] at hh
  rcases hh with rfl | rfl <;> rfl

end C13
end Alliance
