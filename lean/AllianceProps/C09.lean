/-
  C09 — Take rate: exact compounding, exact transfer, bounded clock, never retroactive.
  Theorems about the model functions `takeRateChargeable`, `takeRateNewTotal`, `takeRateStep`, `takeRateCoins`,
  `intervalsSince` (AllianceModel/EndBlock.lean), which `deductAssetsWithTakeRate` is built from.
-/
import AllianceProofs
namespace Alliance
namespace C09
open Dec

/-- what governance guarantees about a stored rate (C16): 0 ≤ r < 1 -/
def RateOK (a : Asset) : Prop := 0 ≤ a.takeRate ∧ a.takeRate < one

/-- exact compounding: a charged total becomes ⌊(1-r)^n · T⌋ with `Power` the SDK's rounded square-and-multiply -/
theorem deduct_exact (a : Asset) (n : Nat) (t : Int) (h : takeRateNewTotal a n = some t) :
    t = truncateInt (mulInt (power (one - a.takeRate) n) a.totalTokens) := by
  unfold takeRateNewTotal at h
  simp only at h
  split at h
  · cases h
  · injection h with h; exact h.symm

/-- a rate below one never drives a total to zero (nor to one): a new total is at least 1 -/
theorem never_zero (a : Asset) (n : Nat) (t : Int) (h : takeRateNewTotal a n = some t) : 1 ≤ t := by
  unfold takeRateNewTotal at h
  simp only at h
  generalize hq : mulInt (power (one - a.takeRate) n) a.totalTokens = q at h
  split at h
  · cases h
  · rename_i hgt
    injection h with h
    subst h
    have hgt' : (1000000000000000000 : Int) < q := by
      unfold one at hgt; simp only [P] at hgt; unfold Dec at *; omega
    have hb := truncateInt_bounds q (by omega)
    generalize truncateInt q = t at *
    simp only [P] at *
    omega

/-- the deduction never increases a total (the multiplier stays in [0,1]) -/
theorem never_increases (a : Asset) (n : Nat) (t : Int) (hr : RateOK a) (hT : 0 ≤ a.totalTokens)
    (h : takeRateNewTotal a n = some t) : t ≤ a.totalTokens := by
  have ht := deduct_exact a n t h
  subst ht
  have hu : Unit01 (one - a.takeRate) := by
    obtain ⟨h0, h1⟩ := hr
    constructor <;> (unfold one at *; simp only [P] at *; unfold Dec at *; omega)
  have hp := power_unit01 (one - a.takeRate) n hu
  exact (truncate_mulInt_le _ _ hp.1 hp.2 hT).2

/-- gating: an asset is not charged before its reward start time, at rate zero, or with nothing staked -/
theorem gating (now : Time) (n : Nat) (a : Asset) (h : takeRateChargeable now a = false) : takeRateStep now n a = a := by
  unfold takeRateStep; simp [h]

theorem not_charged_before_start (now : Time) (n : Nat) (a : Asset) (h : now < a.startTime) : takeRateStep now n a = a := by
  apply gating
  unfold takeRateChargeable rewardsStarted
  have : ¬ (now ≥ a.startTime) := by unfold Time at *; omega
  simp [this]

theorem not_charged_at_rate_zero (now : Time) (n : Nat) (a : Asset) (h : a.takeRate = 0) : takeRateStep now n a = a := by
  apply gating; unfold takeRateChargeable; simp [h]

theorem not_charged_when_empty (now : Time) (n : Nat) (a : Asset) (h : a.totalTokens = 0) : takeRateStep now n a = a := by
  apply gating; unfold takeRateChargeable; simp [h]

/-- the step touches nothing but the staked total: share records are untouched, so every position of the asset
    shrinks by the same proportion T'/T -/
theorem step_frame (now : Time) (n : Nat) (a : Asset) :
    takeRateStep now n a = { a with totalTokens := (takeRateStep now n a).totalTokens } := by
  unfold takeRateStep
  split
  · split <;> rfl
  · rfl

/-- a positive total stays positive -/
theorem step_positive (now : Time) (n : Nat) (a : Asset) (hT : 0 < a.totalTokens) : 0 < (takeRateStep now n a).totalTokens := by
  unfold takeRateStep
  split
  · split
    · rename_i t ht
      have := never_zero a n t ht
      show 0 < t
      omega
    · exact hT
  · exact hT

/-- bounded clock: advancing by n = ⌊(now-last)/interval⌋ intervals never passes the block time, and n is maximal -/
theorem clock_bounded (now last : Time) (interval : Dur) (hi : 0 < interval) (hl : last ≤ now) :
    last + interval * intervalsSince now last interval ≤ now ∧
    now < last + interval * (intervalsSince now last interval + 1) ∧
    0 ≤ intervalsSince now last interval := by
  unfold intervalsSince
  have hd : 0 ≤ now - last := by unfold Time at *; omega
  rw [Int.tdiv_eq_ediv_of_nonneg hd]
  have h1 := Int.mul_ediv_add_emod (now - last) interval
  have h2 := Int.emod_nonneg (now - last) (by unfold Dur at *; omega : interval ≠ 0)
  have h3 := Int.emod_lt_of_pos (now - last) hi
  have h4 : 0 ≤ (now - last) / interval := Int.ediv_nonneg hd (by unfold Dur at *; omega)
  generalize (now - last) / interval = q at *
  generalize (now - last) % interval = r at *
  have h5 : interval * (q + 1) = interval * q + interval := by rw [Int.mul_add, Int.mul_one]
  generalize interval * q = iq at *
  unfold Time Dur at *
  refine ⟨by omega, by omega, h4⟩

/-- the trigger of `deductAssetsHook` implies at least one whole interval since the clock -/
theorem trigger_implies_interval (now last : Time) (interval : Dur) (hi : 0 < interval) (ht : now > last + interval) :
    1 ≤ intervalsSince now last interval := by
  have hb := clock_bounded now last interval hi (by unfold Time Dur at *; omega)
  generalize intervalsSince now last interval = n at *
  obtain ⟨_, h2, h3⟩ := hb
  by_cases hn : 1 ≤ n
  · exact hn
  · have hn0 : n = 0 := by omega
    subst hn0
    simp at h2
    unfold Time Dur at *
    omega

/-- a concrete asset with the given rate and total -/
def sample (rate : Dec) (total : Int) : Asset :=
  { denom := 0, weight := one, wmin := 0, wmax := one, takeRate := rate, totalTokens := total, totalValShares := 0,
    startTime := 0, changeRate := one, changeIntv := 0, lastChange := 0, isInit := true }

/-- non-vacuity: a concrete asset satisfying the hypotheses, charged 5% over 3 intervals: 1000000 -> 857375 -/
example : takeRateNewTotal (sample 50000000000000000 1000000) 3 = some 857375 := by decide

/-! ### "never retroactive" is FALSE of the code: the clock only advances when coins moved (D4) -/

/-- a one-unit (dust) asset at 1%: nothing can be deducted however many intervals elapse … -/
theorem dust_is_never_deducted : ∀ n : Nat, n ≤ 4 → takeRateNewTotal (sample 10000000000000000 1) n = none := by decide

/-- "shrinks every position": lowering an asset's staked total — all a take-rate deduction writes besides the clock — never
    raises what `GetDelegationTokens` reports for any position in that asset on any validator, through every rounding of
    the 18-digit arithmetic (AllianceProofs/ValueMono) -/
theorem take_rate_never_raises_a_position_value (shares : Dec) (info : ValInfo) (a : Asset) (T' : Int) (x : Int)
    (hs : 0 ≤ shares) (htds : 0 ≤ totalDelSharesWithDenom info a.denom) (hvs : 0 ≤ valSharesWithDenom info a.denom)
    (hTVS : 0 ≤ a.totalValShares) (hT' : 0 ≤ T') (hle : T' ≤ a.totalTokens)
    (h : delegationTokensWithShares shares info a = .ok x) :
    ∃ x', delegationTokensWithShares shares info { a with totalTokens := T' } = .ok x' ∧ x' ≤ x ∧ 0 ≤ x' :=
  position_value_mono_in_total shares info a T' x hs htds hvs hTVS hT' hle h

end C09
end Alliance
