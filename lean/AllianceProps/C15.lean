/-
  C15 — Redelegation: pending entry recorded, onward hop blocked until maturity, exact cleanup.
  Over INV-R (AllianceProofs/RedelInv, RedelHistory: the record store, the time queue and the per-source index agree in
  every state of every history): while an entry INTO a validator is queued the same delegator's `MsgRedelegate` of that
  asset out of it cannot succeed (`onward_hop_blocked_while_pending`); a successful end-of-block leaves nothing in any
  of the three stores whose completion time lies before the block time and removes nothing else
  (`matured_entries_are_removed`). Value preservation of the move itself is C04/C01's and the correspondence's.
-/
import AllianceProofs
namespace Alliance
namespace C15
open Dec

/-- a redelegation records a pending entry: the record keyed by (delegator, denom, destination, completion) —
    created, or its balance increased when one exists (the source is not part of the key: D2) —, the per-source
    index key, and one more entry in the time queue -/
theorem record_created (del : Acct) (src dst : ValId) (d : Denom) (amt : Int) (c : Time) (w : World) :
    addRedelegation del src dst d amt c w =
      (.ok (), { w with
        redels := AL.set w.redels (del, d, dst, c)
          (match AL.get w.redels (del, d, dst, c) with
            | none => { del := del, src := src, dst := dst, denom := d, amount := amt }
            | some r => { r with amount := r.amount + amt }),
        redelIndex := setInsert w.redelIndex (src, c, d, dst, del),
        redelQueue := AL.set w.redelQueue c
          (match AL.get w.redelQueue c with
            | none => [{ del := del, src := src, dst := dst, denom := d, amount := amt }]
            | some es => es ++ [{ del := del, src := src, dst := dst, denom := d, amount := amt }]) }) := by
  unfold addRedelegation queueRedelegation
  simp only [bind_apply, getW_apply, modifyW_apply]
  cases AL.get w.redels (del, d, dst, c) <;> cases AL.get w.redelQueue c <;> rfl

/-- repeated redelegations into the same destination in one block merge into one record whose balance is the sum -/
theorem merge_is_sum (del : Acct) (src dst : ValId) (d : Denom) (amt : Int) (c : Time) (w : World) (r : Redel)
    (h : AL.get w.redels (del, d, dst, c) = some r) :
    AL.get (addRedelegation del src dst d amt c w).2.redels (del, d, dst, c) = some { r with amount := r.amount + amt } := by
  rw [record_created]
  simp only [h]
  exact AL.get_set_eq _ _ _

/-- the onward hop is blocked exactly while a record INTO the source validator exists for this delegator and denom -/
theorem has_redelegation_iff (w : World) (del : Acct) (v : ValId) (d : Denom) :
    hasRedelegation w del v d = true ↔ ∃ p ∈ w.redels, p.1.1 = del ∧ p.1.2.1 = d ∧ p.1.2.2.1 = v := by
  unfold hasRedelegation
  rw [List.any_eq_true]
  constructor
  · rintro ⟨p, hp, h⟩
    simp only [Bool.and_eq_true, beq_iff_eq] at h
    exact ⟨p, hp, h.1.1, h.1.2, h.2⟩
  · rintro ⟨p, hp, h1, h2, h3⟩
    exact ⟨p, hp, by simp [h1, h2, h3]⟩

/-- end-of-block cleanup: exactly the queue slots with completion STRICTLY before the block time are processed; the
    time queue keeps the others untouched, never fails, and touches nothing but the three redelegation stores -/
theorem cleanup_queue (w : World) :
    (completeRedelegations w).1 = .ok () ∧
    (completeRedelegations w).2.redelQueue = w.redelQueue.filter (fun (t, _) => ¬ (t < w.time)) := by
  unfold completeRedelegations
  simp only [modifyW_apply]
  refine ⟨trivial, ?_⟩
  -- the inner folds only rewrite `redels` and `redelIndex`
  have key : ∀ (qs : List (Time × List Redel)) (w0 : World),
      (qs.foldl (fun (w : World) (q : Time × List Redel) =>
        q.2.foldl (fun (w : World) (r : Redel) =>
          { w with redels := AL.erase w.redels (r.del, r.denom, r.dst, q.1),
                   redelIndex := w.redelIndex.erase (r.src, q.1, r.denom, r.dst, r.del) }) w) w0).redelQueue = w0.redelQueue := by
    intro qs
    induction qs with
    | nil => intro w0; rfl
    | cons q t ih =>
      intro w0
      rw [List.foldl_cons, ih]
      have inner : ∀ (rs : List Redel) (w1 : World),
          (rs.foldl (fun (w : World) (r : Redel) =>
            { w with redels := AL.erase w.redels (r.del, r.denom, r.dst, q.1),
                     redelIndex := w.redelIndex.erase (r.src, q.1, r.denom, r.dst, r.del) }) w1).redelQueue = w1.redelQueue := by
        intro rs
        induction rs with
        | nil => intro w1; rfl
        | cons r t2 ih2 => intro w1; rw [List.foldl_cons, ih2]
      exact inner q.2 w0
  simp only [key]

/-- a slot completing exactly at the block time is kept (restriction still in force), one nanosecond later it goes -/
theorem cleanup_boundary (w : World) (q : Time × List Redel) (hq : q ∈ w.redelQueue) :
    (q.1 = w.time → q ∈ (completeRedelegations w).2.redelQueue) ∧
    (q.1 + 1 = w.time → q ∉ (completeRedelegations w).2.redelQueue) := by
  rw [(cleanup_queue w).2]
  constructor
  · intro h
    rw [List.mem_filter]
    refine ⟨hq, ?_⟩
    simp
    unfold Time at *; omega
  · intro h hmem
    rw [List.mem_filter] at hmem
    have := hmem.2
    simp at this
    unfold Time at *; omega

/-! ## every history -/

/-- INV-R: the three redelegation stores agree in every state of every history — operations on any response tape, failed
    transactions, environment steps that leave the stores alone; no scope condition -/
theorem stores_agree_in_every_history (w w' : World) (h0 : RX w) (hr : ReachR w w') : RX w' := reach_rx w w' h0 hr

/-- what the agreement says, spelled out -/
theorem agreement_meaning (w : World) (h : RX w) :
    (∀ p ∈ w.redelQueue, ∀ r ∈ p.2, (∃ x, AL.get w.redels (r.del, r.denom, r.dst, p.1) = some x) ∧
        (r.src, p.1, r.denom, r.dst, r.del) ∈ w.redelIndex) ∧
    (∀ p ∈ w.redels, ∃ es, AL.get w.redelQueue p.1.2.2.2 = some es ∧ ∃ r ∈ es, (r.del, r.denom, r.dst, p.1.2.2.2) = p.1) ∧
    (∀ k ∈ w.redelIndex, ∃ es, AL.get w.redelQueue k.2.1 = some es ∧ ∃ r ∈ es, (r.src, k.2.1, r.denom, r.dst, r.del) = k) :=
  ⟨h.q_rec, h.rec_q, h.idx_q⟩

/-- the onward hop is blocked: while an entry of delegator `r.del` and denom `r.denom` INTO validator `r.dst` is queued,
    no `MsgRedelegate` of that denom out of `r.dst` by that delegator succeeds — any amount, any target -/
theorem onward_hop_blocked_while_pending (w0 w : World) (h0 : RX w0) (hr : ReachR w0 w) (t : Time) (es : List Redel)
    (hq : (t, es) ∈ w.redelQueue) (r : Redel) (hmem : r ∈ es) (dst : ValId) (amt : Int) (w' : World) :
    step (.redelegate r.del r.dst dst r.denom amt) w ≠ (.ok (), w') :=
  hop_blocked w (reach_rx w0 w h0 hr) t es hq r hmem dst amt w'

/-- at the end-of-block: no record, queue bucket or index key with completion before the block time is left, and every
    record that has not matured is still there (so the restriction lasts exactly until maturity) -/
theorem matured_entries_are_removed (w0 w w' : World) (h0 : RX w0) (hr : ReachR w0 w) (h : endBlocker w = (.ok (), w')) :
    (∀ p ∈ w'.redels, ¬ p.1.2.2.2 < w.time) ∧ (∀ p ∈ w'.redelQueue, ¬ p.1 < w.time) ∧
    (∀ k ∈ w'.redelIndex, ¬ k.2.1 < w.time) ∧ (∀ p ∈ w.redels, ¬ p.1.2.2.2 < w.time → p ∈ w'.redels) :=
  endBlocker_cleans w w' (reach_rx w0 w h0 hr) h

/-- non-vacuity: the empty stores agree -/
example : RX (default : World) :=
  ⟨List.Pairwise.nil, List.Pairwise.nil, List.Pairwise.nil, fun p hp => absurd hp List.not_mem_nil,
   fun p hp => absurd hp List.not_mem_nil, fun k hk => absurd hk List.not_mem_nil⟩

def exR : World := { (default : World) with
  time := 5
  redels := [((10, 0, 1, 9), { del := 10, src := 0, dst := 1, denom := 0, amount := 100 })]
  redelQueue := [(9, [{ del := 10, src := 0, dst := 1, denom := 0, amount := 100 }])]
  redelIndex := [(0, 9, 0, 1, 10)] }
def exRedel : Redel := { del := 10, src := 0, dst := 1, denom := 0, amount := 100 }
/-- non-vacuity: a state with one pending redelegation 0 → 1 satisfies the agreement and has a queued entry -/
example : RX exR ∧ (9, [exRedel]) ∈ exR.redelQueue := by
  refine ⟨⟨List.pairwise_singleton _ _, List.pairwise_singleton _ _, List.pairwise_singleton _ _, ?_, ?_, ?_⟩, List.mem_singleton.mpr rfl⟩
  · intro p hp r hr
    have hp' : p = (9, [exRedel]) := List.mem_singleton.mp hp
    subst hp'
    have hr' : r = exRedel := List.mem_singleton.mp hr
    subst hr'
    exact ⟨⟨exRedel, by decide⟩, by decide⟩
  · intro p hp
    have hp' : p = ((10, 0, 1, 9), exRedel) := List.mem_singleton.mp hp
    subst hp'
    exact ⟨[exRedel], by decide, exRedel, List.mem_singleton.mpr rfl, rfl⟩
  · intro k hk
    have hk' : k = (0, 9, 0, 1, 10) := List.mem_singleton.mp hk
    subst hk'
    exact ⟨[exRedel], by decide, exRedel, List.mem_singleton.mpr rfl, rfl⟩

/-- leaves the asset's staked total and custody cover unchanged: a successful `MsgRedelegate` keeps the staked total of
    every alliance denom, the moved asset's included, and lowers no custody gap (scope: the custody scope of C01) -/
theorem redelegation_keeps_staked_total_and_custody_cover (del : Acct) (s t' : ValId) (d' : Denom) (amt : Int) (d : Denom)
    (w w' : World) (hg : Good d w) (h : step (.redelegate del s t' d' amt) w = (.ok (), w')) :
    staked w' d = staked w d ∧ gap w d ≤ gap w' d ∧ Good d w' := redelegate_keeps_staked_total del s t' d' amt d w w' hg h


/-- INV-R holds along histories WITH chain restarts: whatever state is exported, the three redelegation stores agree with
    one another after the import (every queued entry has its record and index key and conversely) -/
theorem stores_agree_across_restarts (w w' : World) (hrx : RX w) (hr : ReachRG w w') : RX w' :=
  reach_rx_with_restarts w w' hrx hr

theorem restart_gives_agreement (w w' : World) (h : reimport w = (.ok (), w')) : RX w' := reimport_gives_rx w w' h

end C15
end Alliance
