/-
  C02 — Unbonding payout: exactly once, exact amount, never before maturity.
  Theorems about `queueUndelegation` (one entry per successful undelegation, completion = block time + unbonding
  period) and `completeUnbondings` (an end-of-block removes exactly the buckets whose completion time is STRICTLY
  before the block time — never one that completes at or after it — and nothing is left behind for them).
  The money side (proofs in AllianceProofs/Payout, UserBal, Conserve, ClaimStep): a user account's balance moves at an
  end-of-block by exactly the matured entries naming it (`matured_entries_are_paid_exactly`); balance + amount still owed
  by the queue is conserved there (`claim_conserved_at_block_boundary`, and in every history with no index key left for
  a paid entry: `claim_conserved_in_every_history`); a successful undelegation adds exactly its amount to what is owed
  to its delegator (`undelegation_adds_exactly_its_amount`), the other user operations and governance add nothing;
  what a slash takes off pending entries is C07's `every_pending_entry_cut_exactly_once`.
-/
import AllianceProofs
namespace Alliance
namespace C02
open Dec

/-- a successful undelegation queues exactly one entry: appended to the delegator's bucket for
    completion = block time + staking unbonding period, with the undelegated amount; the per-validator index key is
    added; no other bucket is touched -/
theorem entry_created (del : Acct) (v : ValId) (d : Denom) (amt : Int) (w : World) :
    let c := w.time + w.staking.unbondingTime
    let old := (AL.get w.undelQueue (c, del)).getD []
    queueUndelegation del v d amt w =
      (.ok c, { w with
        undelQueue := AL.set w.undelQueue (c, del) (old ++ [{ del := del, val := v, denom := d, amount := amt }]),
        undelIndex := setInsert w.undelIndex (v, c, d, del) }) := by
  unfold queueUndelegation
  simp only [bind_apply, getW_apply, modifyW_apply, pure_apply]
  cases h : AL.get w.undelQueue (w.time + w.staking.unbondingTime, del) <;> simp [h, Option.getD]

/-- other buckets are not touched by an undelegation -/
theorem entry_created_frame (del : Acct) (v : ValId) (d : Denom) (amt : Int) (w : World) (k : UndelKey)
    (hk : k ≠ (w.time + w.staking.unbondingTime, del)) :
    AL.get (queueUndelegation del v d amt w).2.undelQueue k = AL.get w.undelQueue k := by
  rw [entry_created]
  exact AL.get_set_ne _ _ _ _ hk

/-- when `CompleteUnbondings` succeeds, the queue afterwards is the queue before with exactly the matured buckets
    (completion strictly before the block time) erased (`eraseAll`, AllianceProofs/Conserve): nothing that completes at
    or after the block time is paid or removed, and no matured bucket is left behind -/
theorem complete_exact (w : World) (hok : (completeUnbondings w).1 = .ok ()) :
    (completeUnbondings w).2.undelQueue = eraseAll w.undelQueue (maturedBuckets w) := completeUnbondings_queue w hok

/-- keys at or after the block time survive `eraseAll (matured w)`: never paid before maturity -/
theorem pending_survives (w : World) (k : UndelKey) (hk : ¬ k.1 < w.time) :
    AL.get (eraseAll w.undelQueue (maturedBuckets w)) k = AL.get w.undelQueue k := by
  unfold eraseAll maturedBuckets
  have key : ∀ (ms : List (UndelKey × List Undel)) (q : List (UndelKey × List Undel)),
      (∀ b ∈ ms, b.1.1 < w.time) → AL.get (ms.foldl (fun q b => AL.erase q b.1) q) k = AL.get q k := by
    intro ms
    induction ms with
    | nil => intro q _; rfl
    | cons b t ih =>
      intro q hb
      rw [List.foldl_cons, ih _ (fun b' hb' => hb b' (List.mem_cons_of_mem _ hb'))]
      have hne : k ≠ b.1 := by
        intro heq
        have := hb b List.mem_cons_self
        rw [← heq] at this
        exact hk this
      clear ih hb
      induction q with
      | nil => rfl
      | cons hd tl ih2 =>
        obtain ⟨k', v'⟩ := hd
        unfold AL.erase
        by_cases h1 : b.1 = k'
        · simp only [h1, if_true]
          rw [AL.get_cons]
          have : k ≠ k' := by rw [← h1]; exact hne
          simp [this]
        · simp only [h1, if_false]
          rw [AL.get_cons, AL.get_cons]
          split
          · rfl
          · exact ih2
  apply key
  intro b hb
  rw [List.mem_filter] at hb
  simpa using hb.2

/-- boundary instant: a bucket completing exactly AT the block time is not matured (strict comparison) -/
theorem not_matured_at_boundary (w : World) (b : UndelKey × List Undel) (hb : b.1.1 = w.time) : b ∉ maturedBuckets w := by
  unfold maturedBuckets
  rw [List.mem_filter]
  intro h
  have := h.2
  simp at this
  unfold Time at *
  omega

/-- … and is matured one nanosecond later -/
theorem matured_just_after (w : World) (b : UndelKey × List Undel) (hm : b ∈ w.undelQueue) (hb : b.1.1 + 1 = w.time) :
    b ∈ maturedBuckets w := by
  unfold maturedBuckets
  rw [List.mem_filter]
  refine ⟨hm, ?_⟩
  simp
  unfold Time at *
  omega

/-! ## the money side of the block boundary, and every history -/

/-- exact amount, once: a successful end-of-block moves a user account's balance of every denom by exactly the sum of the
    (possibly slashed) balances of the matured entries that name it — take-rate, reward indexing, decay and rebalancing
    move coins between system accounts only -/
theorem matured_entries_are_paid_exactly (u : Acct) (d : Denom) (hu : IsUser u) (w w' : World)
    (h : endBlocker w = (.ok (), w')) : bankBalance w' u d = bankBalance w u d + owedNow u d w :=
  endBlocker_pays_user' hu w w' h

/-- nothing twice, nothing lost, nothing early: balance + amount the queue still owes the account is conserved by the
    end-of-block, and the queue afterwards is exactly the buckets that have not matured -/
theorem claim_conserved_at_block_boundary (u : Acct) (d : Denom) (hu : IsUser u) (w w' : World)
    (hs : AL.SortedBy undelKeyOrder w.undelQueue) (h : endBlocker w = (.ok (), w')) :
    bankBalance w' u d + owedAll u d w' = bankBalance w u d + owedAll u d w ∧
    w'.undelQueue = w.undelQueue.filter (fun b => !decide (b.1.1 < w.time)) :=
  endBlocker_conserves_claim hu w w' hs h

/-- … in every state of every history from a state where index and queue agree; and afterwards the index holds no key
    of a paid entry (every remaining key leads to a bucket that has not matured) -/
theorem claim_conserved_in_every_history (u : Acct) (d : Denom) (hu : IsUser u) (w0 w w' : World) (h0 : IX w0)
    (hr : ReachU w0 w) (h : endBlocker w = (.ok (), w')) :
    bankBalance w' u d + owedAll u d w' = bankBalance w u d + owedAll u d w ∧
    (∀ k ∈ w'.undelIndex, ¬ k.2.1 < w.time) := by
  have hix := reach_ix w0 w h0 hr
  obtain ⟨h1, h2⟩ := endBlocker_conserves_claim (d := d) hu w w' hix.qsorted h
  refine ⟨h1, ?_⟩
  intro k hk
  have hix' : IX w' := endBlocker_ix.run w w' () h hix
  obtain ⟨es, hes, _⟩ := hix'.witness k hk
  have hm := AL.get_some_mem _ _ _ hes
  rw [h2] at hm
  have := (List.mem_filter.mp hm).2
  simpa using this

/-- creation side: a successful `MsgUndelegate` of `amt` adds exactly `amt` to what the queue owes the delegator in that
    denom, and nothing to any other (account, denom) -/
theorem undelegation_adds_exactly_its_amount (del : Acct) (v : ValId) (dn : Denom) (amt : Int) (u : Acct) (d : Denom)
    (w w' : World) (hs : QS w) (h : step (.undelegate del v dn amt) w = (.ok (), w')) :
    owedAll u d w' = owedAll u d w + (if del = u ∧ dn = d then amt else 0) :=
  undelegate_adds_claim del v dn amt u d w w' hs h

/-- delegation, redelegation, claims and governance leave every account's pending amount alone -/
theorem other_operations_leave_pending_amounts (op : Op) (u : Acct) (d : Denom) (w w' : World) (hs : QS w)
    (hop : match op with | .delegate .. | .redelegate .. | .claim .. | .createAlliance .. | .updateAlliance .. |
                          .deleteAlliance .. | .updateParams .. => True | _ => False)
    (h : step op w = (.ok (), w')) : owedAll u d w' = owedAll u d w := other_ops_keep_claim op u d w w' hs hop h

/-- "made at the first end-of-block …": the payout phase cannot fail, so it cannot postpone a payout. In a state where the
    queue is uniquely keyed (INV-Q), no pending balance is negative (`reach_nq`: every history), no entry pays to the
    module account (custody scope) and custody covers the pending unbondings per denom (C01's invariant, with non-negative
    staked totals: `cover_of_gap`), `CompleteUnbondings` succeeds (proof: AllianceProofs/PayoutLive — every transfer is
    affordable because custody holds what the rest of the bucket and the rest of the queue still need) -/
theorem matured_entries_are_always_paid (w : World) (hs : QSorted w) (hn : NonnegQ w) (hu : UsersOnly w) (hc : Cover w) :
    ∃ w', completeUnbondings w = (.ok (), w') := completeUnbondings_ok w hs hn hu hc

/-- no pending balance is negative, in every state of every history -/
theorem pending_balances_never_negative (w0 w : World) (h0 : NonnegQ w0) (hr : ReachU w0 w) : NonnegQ w :=
  reach_nq w0 w h0 hr

/-- custody covering staked + pending (gap ≥ 0) gives the cover when staked totals are not negative -/
theorem cover_from_custody_invariant (w : World) (hg : ∀ d, 0 ≤ gap w d) (hst : ∀ d, 0 ≤ staked w d) : Cover w :=
  cover_of_gap w hg hst

/-- non-vacuity: account 10 is a user; at time 5 one of its two buckets (completion 3) has matured: the end-of-block succeeds,
    pays the 500 and leaves the 1000 owed -/
def exW2 : World := { (default : World) with
  time := 5
  params := { rewardDelay := 0, takeRateInterval := 100, lastTakeRateClaim := 0 }
  undelQueue := [((3, 10), [{ del := 10, val := 0, denom := 0, amount := 500 }]),
                 ((9, 10), [{ del := 10, val := 0, denom := 0, amount := 1000 }])]
  undelIndex := [(0, 3, 0, 10), (0, 9, 0, 10)]
  bank := [((0, 0), 10000)] }
example : (match (endBlocker exW2).1 with | .ok _ => true | _ => false) = true ∧
   owedNow 10 0 exW2 = 500 ∧ owedAll 10 0 exW2 = 1500 ∧
   bankBalance (endBlocker exW2).2 10 0 = 500 ∧ owedAll 10 0 (endBlocker exW2).2 = 1000 := by decide


example : IsUser 10 := by unfold IsUser; decide

/-- non-vacuity of `matured_entries_are_always_paid`: the example state meets all four premises -/
example : QSorted exW2 ∧ NonnegQ exW2 ∧ UsersOnly exW2 ∧ Cover exW2 := by
  refine ⟨by decide, ?_, by decide, ?_⟩
  · unfold NonnegQ; decide
  · intro d
    by_cases hd : d = 0
    · subst hd; decide
    · have h1 : pending exW2 d = 0 := by
        unfold pending exW2 AL.sumBy
        simp [entrySum, Ne.symm hd]
      have h2 : custody exW2 d = 0 := by
        unfold custody bankBalance exW2
        simp [AL.get, accModule, hd]
      omega

end C02
end Alliance
