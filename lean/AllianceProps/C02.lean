/-
  C02 — Unbonding payout: exactly once, exact amount, never before maturity.
  Theorems about `queueUndelegation` (one entry per successful undelegation, completion = block time + unbonding
  period) and `completeUnbondings` (an end-of-block removes exactly the buckets whose completion time is STRICTLY
  before the block time — never one that completes at or after it — and nothing is left behind for them).
-/
import AllianceProofs
namespace Alliance
namespace C02
open Dec

/-- a successful undelegation queues exactly one entry: appended to the delegator's bucket for
    completion = block time + staking unbonding period, with the undelegated amount; the per-validator index key is
    added; no other bucket is touched -/
theorem entry_created (del : Acct) (v : ValId) (d : Denom) (amt : Int) (w : World) :
    let c := w.time + w.staking.unbondingTime
    let old := (AL.get w.undelQueue (c, del)).getD []
    queueUndelegation del v d amt w =
      (.ok c, { w with
        undelQueue := AL.set w.undelQueue (c, del) (old ++ [{ del := del, val := v, denom := d, amount := amt }]),
        undelIndex := setInsert w.undelIndex (v, c, d, del) }) := by
  unfold queueUndelegation
  simp only [bind_apply, getW_apply, modifyW_apply, pure_apply]
  cases h : AL.get w.undelQueue (w.time + w.staking.unbondingTime, del) <;> simp [h, Option.getD]

/-- other buckets are not touched by an undelegation -/
theorem entry_created_frame (del : Acct) (v : ValId) (d : Denom) (amt : Int) (w : World) (k : UndelKey)
    (hk : k ≠ (w.time + w.staking.unbondingTime, del)) :
    AL.get (queueUndelegation del v d amt w).2.undelQueue k = AL.get w.undelQueue k := by
  rw [entry_created]
  exact AL.get_set_ne _ _ _ _ hk

/-- erase all given keys -/
def eraseAll (q : List (UndelKey × List Undel)) (ks : List (UndelKey × List Undel)) : List (UndelKey × List Undel) :=
  ks.foldl (fun q b => AL.erase q b.1) q

private theorem loop_queue (ms : List (UndelKey × List Undel)) (w0 w1 : World)
    (h : forEachM payBucket ms w0 = (.ok (), w1)) : w1.undelQueue = eraseAll w0.undelQueue ms := by
  induction ms generalizing w0 with
  | nil =>
    unfold forEachM at h
    simp only [pure_apply] at h
    injection h with _ h2
    rw [← h2]; rfl
  | cons b t ih =>
    unfold forEachM at h
    simp only [bind_apply] at h
    rcases hb : payBucket b w0 with ⟨r, wb⟩
    rw [hb] at h
    cases r with
    | error e => simp at h
    | ok u =>
      simp only at h
      have hq : wb.undelQueue = AL.erase w0.undelQueue b.1 := by
        unfold payBucket at hb
        simp only [bind_apply] at hb
        have hf := (FrameUQ.forEachM (payEntry b.1.1) b.2 (fun e => FrameUQ.payEntry _ e)).frame w0
        rcases hi : forEachM (payEntry b.1.1) b.2 w0 with ⟨ri, wi⟩
        rw [hi] at hb hf
        cases ri with
        | error e => simp at hb
        | ok ui =>
          simp only [modifyW_apply] at hb
          injection hb with _ h2
          rw [← h2]
          show AL.erase wi.undelQueue b.1 = _
          have : wi.undelQueue = w0.undelQueue := hf
          rw [this]
      rw [ih wb h, hq]
      rfl

/-- when `CompleteUnbondings` succeeds, the queue afterwards is the queue before with exactly the matured buckets
    (completion strictly before the block time) erased: nothing that completes at or after the block time is paid or
    removed, and no matured bucket is left behind -/
theorem complete_exact (w : World) (hok : (completeUnbondings w).1 = .ok ()) :
    (completeUnbondings w).2.undelQueue = eraseAll w.undelQueue (maturedBuckets w) := by
  unfold completeUnbondings at *
  simp only [bind_apply, getW_apply] at *
  rcases hl : forEachM payBucket (maturedBuckets w) w with ⟨r, w1⟩
  try rw [hl] at hok
  cases r with
  | error e => simp at hok
  | ok u =>
    simp only at hok ⊢
    have hq := loop_queue _ w w1 hl
    split
    · have := (FrameUQ.burnCoin accModule w1.staking.bondDenom (bankBalance w1 accModule w1.staking.bondDenom)).frame w1
      show FrameUQ.π _ = _
      rw [this]
      exact hq
    · exact hq

/-- keys at or after the block time survive `eraseAll (matured w)`: never paid before maturity -/
theorem pending_survives (w : World) (k : UndelKey) (hk : ¬ k.1 < w.time) :
    AL.get (eraseAll w.undelQueue (maturedBuckets w)) k = AL.get w.undelQueue k := by
  unfold eraseAll maturedBuckets
  have key : ∀ (ms : List (UndelKey × List Undel)) (q : List (UndelKey × List Undel)),
      (∀ b ∈ ms, b.1.1 < w.time) → AL.get (ms.foldl (fun q b => AL.erase q b.1) q) k = AL.get q k := by
    intro ms
    induction ms with
    | nil => intro q _; rfl
    | cons b t ih =>
      intro q hb
      rw [List.foldl_cons, ih _ (fun b' hb' => hb b' (List.mem_cons_of_mem _ hb'))]
      have hne : k ≠ b.1 := by
        intro heq
        have := hb b List.mem_cons_self
        rw [← heq] at this
        exact hk this
      clear ih hb
      induction q with
      | nil => rfl
      | cons hd tl ih2 =>
        obtain ⟨k', v'⟩ := hd
        unfold AL.erase
        by_cases h1 : b.1 = k'
        · simp only [h1, if_true]
          rw [AL.get_cons]
          have : k ≠ k' := by rw [← h1]; exact hne
          simp [this]
        · simp only [h1, if_false]
          rw [AL.get_cons, AL.get_cons]
          split
          · rfl
          · exact ih2
  apply key
  intro b hb
  rw [List.mem_filter] at hb
  simpa using hb.2

/-- boundary instant: a bucket completing exactly AT the block time is not matured (strict comparison) -/
theorem not_matured_at_boundary (w : World) (b : UndelKey × List Undel) (hb : b.1.1 = w.time) : b ∉ maturedBuckets w := by
  unfold maturedBuckets
  rw [List.mem_filter]
  intro h
  have := h.2
  simp at this
  unfold Time at *
  omega

/-- … and is matured one nanosecond later -/
theorem matured_just_after (w : World) (b : UndelKey × List Undel) (hm : b ∈ w.undelQueue) (hb : b.1.1 + 1 = w.time) :
    b ∈ maturedBuckets w := by
  unfold maturedBuckets
  rw [List.mem_filter]
  refine ⟨hm, ?_⟩
  simp
  unfold Time at *
  omega

end C02
end Alliance
