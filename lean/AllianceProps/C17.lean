/-
  C17 — End-of-block processing never fails: what is proved, and what is refuted.
  Acceptance of a parameter value implies that end-of-block can divide by it (after the `fix:` for D9), in every
  reachable state. Totality of the whole EndBlocker is FALSE of the code (known findings D8, D10, D15: zero-token
  validator, vanishing staked weight, weight overflow); the model mirrors those and the checks report them.
-/
import AllianceProofs
import Generated.Tables
import Generated.Facts
namespace Alliance
namespace C17
open Dec

/-- parameters accepted by the update-params handler are safe for end-of-block: interval > 0, delay ≥ 0 -/
theorem accepted_params_are_safe (s : Signer) (p : Params) (w : World) (h : (msgUpdateParams s p w).1 = .ok ()) :
    ParamsOKp p := by
  unfold msgUpdateParams at h
  unfold ParamsOKp
  by_cases h1 : p.rewardDelay < 0
  · exfalso
    have : IsError (msgUpdateParams s p w) := by
      unfold msgUpdateParams
      apply isError_guard; intro _
      apply isError_guard_true; exact h1
    obtain ⟨e, he⟩ := this
    unfold msgUpdateParams at he
    rw [h] at he; cases he
  · by_cases h2 : p.takeRateInterval ≤ 0
    · exfalso
      have : IsError (msgUpdateParams s p w) := by
        unfold msgUpdateParams
        apply isError_guard; intro _
        apply isError_guard; intro _
        apply isError_guard_true; exact h2
      obtain ⟨e, he⟩ := this
      unfold msgUpdateParams at he
      rw [h] at he; cases he
    · unfold Dur at *; constructor <;> omega

/-- the parameters are safe in every state of every history that starts from safe parameters
    (`ValidateGenesis` requires a positive interval) -/
theorem params_safe_inv (ops : List Op) (w : World) (h : ParamsOK w) : ParamsOK (run w ops) :=
  run_paramsOK ops w h

/-- hence the take-rate step of EndBlocker never panics in a reachable state — in particular not with the integer
    division by zero of D9 -/
theorem take_rate_step_never_panics (ops : List Op) (w : World) (h : ParamsOK w) (last : Time) (as : List Asset)
    (c : String) : (deductAssetsWithTakeRate last as (run w ops)).1 ≠ .error (.panic c) := by
  have hp := run_paramsOK ops w h
  apply deductAssetsWithTakeRate_never_panics
  unfold ParamsOK ParamsOKp at hp
  unfold Dur at *
  omega

/-- the decay clamp makes the range check of `UpdateAllianceAsset` pass: weight decay never fails for range reasons -/
theorem decay_passes_range_check (a : Asset) (n : Nat) (w2 : Dec) (hmm : a.wmin ≤ a.wmax)
    (h : decayedWeight a n = some w2) : ¬ (a.wmin > w2 ∨ a.wmax < w2) := by
  have := decayedWeight_in_range a n w2 hmm h
  unfold Dec at *
  omega

/-- fact (regenerated from the source on every run): the step list of `alliance.EndBlocker` is the modelled one -/
theorem endblock_steps_as_modelled : Generated.endBlockSteps =
    ["CompleteRedelegations", "CompleteUnbondings", "GetAllAssets", "InitializeAllianceAssets", "DeductAssetsHook",
     "RewardWeightChangeHook", "RebalanceHook"] := by decide

/-! ## the complete list of failure modes -/

/-- for EVERY state: when the end blocker fails, its error is one of `endModes` (listed below); nothing else can go wrong
    (proof: AllianceProofs/FailModesEB) -/
theorem end_block_failure_modes (w : World) (e : Err) (h : (step .endBlock w).1 = .error e) : e ∈ endModes :=
  endBlocker_errs.run w e h

/-- with valid module parameters (INV-P: every reachable state, every parameter set the governance handler accepts) the
    integer division by zero of the take-rate step (D9) and the parameter validation error are excluded -/
theorem end_block_failure_modes_under_accepted_params (w : World) (hp : ParamsOK w) (e : Err)
    (h : (step .endBlock w).1 = .error e) : e ∈ endModesOK := end_block_failure_modes_with_valid_params w hp e h

example : endModesOK = [.err "no_validator", .err "unknown_asset", .err "no_delegation", .err "insufficient_funds",
    .err "oracle_exhausted", .err "oracle_mismatch", .panic "neg_dec_coin", .panic "neg_coin", .panic "div_zero",
    .panic "overflow", .err "weight_out_of_bound", .err "invalid_ex_rate", .panic "power_overflow",
    .err "insufficient_shares", .err "invalid_shares", .err "not_enough_shares", .panic "staking_negative_tokens"] := rfl
example : endModes = .err "invalid_duration" :: .panic "int_div_zero" :: endModesOK := rfl

/-- the payout phase of the end blocker cannot fail where custody covers the pending unbondings (C01) and no pending
    balance is negative (every history): `insufficient_funds` of `CompleteUnbondings` is excluded there -/
theorem payout_phase_never_fails (w : World) (hs : QSorted w) (hn : NonnegQ w) (hu : UsersOnly w) (hc : Cover w) :
    ∃ w', completeUnbondings w = (.ok (), w') := completeUnbondings_ok w hs hn hu hc

/-- fact (regenerated from x/alliance/abci.go on every run): the end blocker's body, statement by statement — no early return
    before the six phases, the phases in this order -/
theorem end_blocker_body_as_modelled : Generated.endBlockStatements = ["defer telemetry.ModuleMeasureSince(types.ModuleName, ctx.BlockTime(), telemetry.MetricKeyEndBlocker)", "k.CompleteRedelegations(ctx)", "if err := k.CompleteUnbondings(ctx); err != nil {", "assets := k.GetAllAssets(ctx)", "if err := k.InitializeAllianceAssets(ctx, assets); err != nil {", "if _, err := k.DeductAssetsHook(ctx, assets); err != nil {", "if err := k.RewardWeightChangeHook(ctx, assets); err != nil {", "if err := k.RebalanceHook(ctx, assets); err != nil {", "return nil"] := rfl


/-- fact (regenerated from app/app.go on every run): the alliance module account may mint and burn — the end blocker burns
    whatever staking-denom coins the account holds (`CompleteUnbondings`) and the rebalancer mints and burns the virtual stake;
    without the burner permission the bank module panics and the chain halts (seeded change C17-j) — and the rewards pool has no
    permission at all -/
theorem module_account_permissions_as_modelled :
    Generated.allianceModulePerms = ["authtypes.Burner", "authtypes.Minter"] ∧ Generated.rewardsPoolPerms = [] := by decide


/-- the module holds 23761328.028984346229163360 of validator 1's 120674618.548346730589807969 shares, backed by 39728120 tokens:
    its stake is worth 7822629.9999999999999999996 tokens — `Quo` says 7822630 -/
def wRound : World :=
  { (default : World) with
    time := 100, flag := true,
    vals := [(1, { hist := [], totalDelShares := [], valShares := [] })],
    bank := [((accBonded, 9), 39728120)],
    staking := { bondDenom := 9, unbondingTime := 50, vals := [(1, { status := 3, jailed := false, tokens := 39728120, delShares := 120674618548346730589807969, modShares := some 23761328028984346229163360 })] },
    params := { rewardDelay := 0, takeRateInterval := 1, lastTakeRateClaim := 0 } }

/-- REFUTES end-of-block totality in a healthy state (known finding D24 `rebalance_unbond_rounds_past_delegation`): with no alliance
    left every target is 0, the rebalancer reads the module's stake as `Quo` rounds it — 7822630 exactly, the true value being
    4·10⁻¹⁹ less — asks x/staking to unbond 7822630 tokens, and `ValidateUnbondAmount` refuses: the shares that amount is worth
    exceed the delegation -/
theorem rebalance_rounds_past_the_delegation :
    quo (mulInt 23761328028984346229163360 39728120) 120674618548346730589807969 = 7822630 * one ∧
    (23761328028984346229163360 : Int) * 39728120 < 7822630 * 120674618548346730589807969 ∧
    (rebalanceHook [] wRound).1.toBool = false ∧ (endBlocker wRound).1.toBool = false := by
  refine ⟨by decide +kernel, by decide +kernel, by decide +kernel, by decide +kernel⟩

end C17
end Alliance
