/-
  C16 — Governance gate and asset-parameter validity.
  Gate theorems: for EVERY field combination (nil, negative, boundary, huge — all values of `AllianceFields`, `Params`)
  a governance message from a signer other than the authority fails, and a failed message changes no state.
-/
import AllianceProofs
import Generated.Tables
import Generated.Facts
namespace Alliance
namespace C16
open Dec

/-- create: a signer other than the authority is always rejected, whatever the fields -/
theorem gate_create (s : Signer) (f : AllianceFields) (w : World) (hs : s ≠ .authority) :
    IsError (msgCreateAlliance s f w) := by
  unfold msgCreateAlliance
  gate_walk hs

theorem gate_update (s : Signer) (f : AllianceFields) (w : World) (hs : s ≠ .authority) :
    IsError (msgUpdateAlliance s f w) := by
  unfold msgUpdateAlliance
  gate_walk hs

theorem gate_delete (s : Signer) (d : Option Denom) (w : World) (hs : s ≠ .authority) :
    IsError (msgDeleteAlliance s d w) := by
  unfold msgDeleteAlliance
  gate_walk hs

theorem gate_params (s : Signer) (p : Params) (w : World) (hs : s ≠ .authority) :
    IsError (msgUpdateParams s p w) := by
  unfold msgUpdateParams
  gate_walk hs

/-- a rejected request changes no state (only the position on the oracle's response tape may move):
    holds for every transaction-type operation, by the cache-wrapped execution of messages -/
theorem rejected_is_noop (op : Op) (w : World) (e : Err)
    (htx : match op with
      | .delegate .. | .undelegate .. | .redelegate .. | .claim .. | .createAlliance .. | .updateAlliance ..
      | .deleteAlliance .. | .updateParams .. => True
      | _ => False)
    (h : (step op w).1 = .error e) : (step op w).2 = { w with oracle := (step op w).2.oracle } := by
  cases op <;> simp only at htx <;> (try exact absurd htx id) <;> exact asTx_error_noop _ w e h

/-- the four governance operations, as executed by `step`, fail for a non-authority signer and leave the state alone -/
theorem gate_step_create (s : Signer) (f : AllianceFields) (w : World) (hs : s ≠ .authority) :
    ∃ e, (step (.createAlliance s f) w).1 = .error e ∧
      (step (.createAlliance s f) w).2 = { w with oracle := (step (.createAlliance s f) w).2.oracle } := by
  obtain ⟨e, he⟩ := gate_create s f w hs
  have h : (step (.createAlliance s f) w).1 = .error e := by
    show (asTx (msgCreateAlliance s f) w).1 = .error e
    rw [asTx_apply]
    rcases hm : msgCreateAlliance s f w with ⟨r, w'⟩
    rw [hm] at he
    cases r with
    | ok a => cases he
    | error e' => simpa using he
  exact ⟨e, h, rejected_is_noop _ w e trivial h⟩

/-- Every stored asset always satisfies 0 ≤ takeRate < 1, range.min ≤ rewardWeight ≤ range.max, changeRate > 0 and
    changeInterval ≥ 0: an invariant of EVERY history of operations (user messages, governance messages with any
    field values, slash callbacks, hooks, end-of-block runs with decay), whether the operations succeed or fail. -/
theorem asset_valid_inv (ops : List Op) (w : World) (h : AssetsValid w) : AssetsValid (run w ops) :=
  run_valid ops w h

/-- …and it holds in the empty initial state, hence in every reachable state -/
theorem asset_valid_reachable (ops : List Op) (w : World) (h : w.assets = []) : AssetsValid (run w ops) :=
  run_valid ops w (by intro p hp; rw [h] at hp; cases hp)

/-- an update never alters an asset's staked total, share total, denom, reward start time or initialisation flag:
    the record `UpdateAllianceAsset` writes is the stored asset with only the whitelisted fields replaced -/
theorem update_frame (old new : Asset) (now : Time) :
    (applyUpdate old new now).totalTokens = old.totalTokens ∧
    (applyUpdate old new now).totalValShares = old.totalValShares ∧
    (applyUpdate old new now).denom = old.denom ∧
    (applyUpdate old new now).startTime = old.startTime ∧
    (applyUpdate old new now).isInit = old.isInit := ⟨rfl, rfl, rfl, rfl, rfl⟩

/-- an asset can be deleted only while nothing is staked in it -/
theorem delete_only_empty (s : Signer) (d : Denom) (w : World) (a : Asset) (hget : getAsset w d = some a)
    (hpos : 0 < a.totalTokens) : IsError (msgDeleteAlliance s (some d) w) := by
  unfold msgDeleteAlliance
  apply isError_guard; intro _
  apply isError_requireSome; intro denom hden
  cases hden
  apply isError_guard; intro _
  simp only [bind_apply, getW_apply]
  apply isError_requireSome; intro asset hasset
  rw [hget] at hasset
  cases hasset
  apply isError_guard_true
  exact hpos

/-- a denom can be whitelisted only once -/
theorem create_unique (s : Signer) (f : AllianceFields) (d : Denom) (w : World) (a : Asset)
    (hd : f.denom = some d) (hget : getAsset w d = some a) : IsError (msgCreateAlliance s f w) := by
  unfold msgCreateAlliance
  apply isError_guard; intro _
  apply isError_requireSome; intro denom hden
  rw [hd] at hden
  cases hden
  apply isError_guard; intro _
  apply isError_requireSome; intro _ _
  apply isError_guard; intro _
  apply isError_requireSome; intro _ _
  apply isError_requireSome; intro _ _
  apply isError_guard; intro _
  apply isError_guard; intro _
  apply isError_guard; intro _
  apply isError_requireSome; intro _ _
  apply isError_guard; intro _
  apply isError_requireSomeP; intro _ _
  apply isError_guard; intro _
  apply isError_guard; intro _
  apply isError_guard; intro _
  simp only [bind_apply, getW_apply]
  apply isError_guard_true
  rw [hget]; rfl

/-- non-vacuity: a valid create by the authority on an empty store succeeds -/
example : ∃ w', (step (.createAlliance .authority
    { denom := some 0, weight := some one, wmin := some 0, wmax := some (2 * one), takeRate := some 0,
      changeRate := some one, changeIntv := 0 }) (default : World)) = (.ok (), w') := ⟨_, rfl⟩

/-- fact (regenerated from the source on every run): `UpdateAllianceAsset` assigns exactly the whitelisted fields -/
theorem update_whitelist_as_modelled : Generated.updateWhitelist =
    ["LastRewardChangeTime", "RewardChangeInterval", "RewardChangeRate", "RewardWeight", "RewardWeightRange", "TakeRate"] := by
  decide

/-- fact (regenerated from keeper/msg_server.go on every run): the validation guards of all eight message handlers — their
    text, hence every comparator, constant and operand, and their order — are the ones the model's `msg*` functions were
    written from. An edit to any guard (`LTE(ZeroInt)` → `LTE(OneInt)`, `IsZero` → `IsNil`, a dropped or reordered check)
    breaks this `decide` without any trace having to exercise it -/
theorem msg_guards_as_modelled : Generated.msgGuards = [
  ("Delegate", ["!msg.Amount.Amount.GT(math.ZeroInt())"]),
  ("Redelegate", ["msg.Amount.Amount.LTE(math.ZeroInt())"]),
  ("Undelegate", ["msg.Amount.Amount.LTE(math.ZeroInt())"]),
  ("ClaimDelegationRewards", ["msg.Denom == \"\""]),
  ("UpdateParams", ["msg.Params.TakeRateClaimInterval <= 0", "m.GetAuthority() != msg.Authority"]),
  ("CreateAlliance", ["msg.Denom == \"\"", "msg.RewardWeight.IsNil() || msg.RewardWeight.LT(math.LegacyZeroDec())", "msg.RewardWeightRange.Min.IsNil() || msg.RewardWeightRange.Min.LT(math.LegacyZeroDec()) ||\n\tmsg.RewardWeightRange.Max.IsNil() || msg.RewardWeightRange.Max.LT(math.LegacyZeroDec())", "msg.RewardWeightRange.Min.GT(msg.RewardWeightRange.Max)", "msg.RewardWeight.LT(msg.RewardWeightRange.Min) || msg.RewardWeight.GT(msg.RewardWeightRange.Max)", "msg.TakeRate.IsNil() || msg.TakeRate.IsNegative() || msg.TakeRate.GTE(math.LegacyOneDec())", "msg.RewardChangeRate.IsZero() || msg.RewardChangeRate.IsNegative()", "msg.RewardChangeInterval < 0", "m.GetAuthority() != msg.Authority", "found"]),
  ("UpdateAlliance", ["msg.Denom == \"\"", "msg.RewardWeight.IsNil() || msg.RewardWeight.LT(math.LegacyZeroDec())", "msg.TakeRate.IsNil() || msg.TakeRate.IsNegative() || msg.TakeRate.GTE(math.LegacyOneDec())", "msg.RewardChangeRate.IsZero() || msg.RewardChangeRate.IsNegative()", "msg.RewardChangeInterval < 0", "m.GetAuthority() != msg.Authority", "!found", "asset.RewardWeightRange.Min.GT(msg.RewardWeight) || asset.RewardWeightRange.Max.LT(msg.RewardWeight)"]),
  ("DeleteAlliance", ["msg.Denom == \"\"", "m.GetAuthority() != msg.Authority", "!found", "asset.TotalTokens.GT(math.ZeroInt())"])
] := rfl

/-! ## the complete list of failure modes of the governance messages -/

/-- for EVERY state and every field value: a failing `MsgCreateAlliance`, `MsgUpdateAlliance`, `MsgDeleteAlliance` or
    `MsgUpdateParams` fails with one of `govModes` (proof: AllianceProofs/FailModesGov) -/
theorem governance_failure_modes (op : Op) (w : World) (e : Err)
    (hop : match op with | .createAlliance .. | .updateAlliance .. | .deleteAlliance .. | .updateParams .. => True | _ => False)
    (h : (step op w).1 = .error e) : e ∈ govModes := gov_failure_modes op w e hop h

end C16
end Alliance
