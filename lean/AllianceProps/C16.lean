/-
  C16 — Governance gate and asset-parameter validity.
  Gate theorems: for EVERY field combination (nil, negative, boundary, huge — all values of `AllianceFields`, `Params`)
  a governance message from a signer other than the authority fails, and a failed message changes no state.
-/
import AllianceProofs
namespace Alliance
namespace C16
open Dec

/-- the predicate every stored asset must satisfy -/
def AssetValid (a : Asset) : Prop :=
  0 ≤ a.takeRate ∧ a.takeRate < one ∧ a.wmin ≤ a.weight ∧ a.weight ≤ a.wmax ∧ 0 < a.changeRate ∧ 0 ≤ a.changeIntv

def IsError {α} (r : Except Err α × World) : Prop := ∃ e, r.1 = .error e

theorem isError_guard {β} (c : Prop) [Decidable c] (code : String) (f : Unit → M β) (w : World)
    (h : ¬ c → IsError (f () w)) : IsError ((guardE c code >>= f) w) := by
  unfold guardE
  by_cases hc : c
  · simp [hc, IsError]
  · simpa [hc] using h hc

theorem isError_guard_true {β} (c : Prop) [Decidable c] (code : String) (f : Unit → M β) (w : World)
    (h : c) : IsError ((guardE c code >>= f) w) := by
  unfold guardE; simp [h, IsError]

theorem isError_requireSome {α β} (x : Option α) (code : String) (f : α → M β) (w : World)
    (h : ∀ a, x = some a → IsError (f a w)) : IsError ((requireSome x code >>= f) w) := by
  unfold requireSome
  cases x with
  | none => simp [IsError]
  | some a => simpa using h a rfl

theorem isError_requireSomeP {α β} (x : Option α) (f : α → M β) (w : World)
    (h : ∀ a, x = some a → IsError (f a w)) : IsError ((requireSomeP x >>= f) w) := by
  unfold requireSomeP
  cases x with
  | none => simp [IsError]
  | some a => simpa using h a rfl

/-- walk down a handler: every guard either fires (error) or is passed; the authority guard fires -/
macro "gate_walk" hs:ident : tactic => `(tactic| repeat (first
  | (apply isError_guard_true; exact $hs)
  | (apply isError_guard; intro _)
  | (apply isError_requireSome; intro _ _)
  | (apply isError_requireSomeP; intro _ _)))

/-- create: a signer other than the authority is always rejected, whatever the fields -/
theorem gate_create (s : Signer) (f : AllianceFields) (w : World) (hs : s ≠ .authority) :
    IsError (msgCreateAlliance s f w) := by
  unfold msgCreateAlliance
  gate_walk hs

theorem gate_update (s : Signer) (f : AllianceFields) (w : World) (hs : s ≠ .authority) :
    IsError (msgUpdateAlliance s f w) := by
  unfold msgUpdateAlliance
  gate_walk hs

theorem gate_delete (s : Signer) (d : Option Denom) (w : World) (hs : s ≠ .authority) :
    IsError (msgDeleteAlliance s d w) := by
  unfold msgDeleteAlliance
  gate_walk hs

theorem gate_params (s : Signer) (p : Params) (w : World) (hs : s ≠ .authority) :
    IsError (msgUpdateParams s p w) := by
  unfold msgUpdateParams
  gate_walk hs

/-- a rejected request changes no state (only the position on the oracle's response tape may move):
    holds for every transaction-type operation, by the cache-wrapped execution of messages -/
theorem rejected_is_noop (op : Op) (w : World) (e : Err)
    (htx : match op with
      | .delegate .. | .undelegate .. | .redelegate .. | .claim .. | .createAlliance .. | .updateAlliance ..
      | .deleteAlliance .. | .updateParams .. => True
      | _ => False)
    (h : (step op w).1 = .error e) : (step op w).2 = { w with oracle := (step op w).2.oracle } := by
  cases op <;> simp only at htx <;> (try exact absurd htx id) <;> exact asTx_error_noop _ w e h

/-- the four governance operations, as executed by `step`, fail for a non-authority signer and leave the state alone -/
theorem gate_step_create (s : Signer) (f : AllianceFields) (w : World) (hs : s ≠ .authority) :
    ∃ e, (step (.createAlliance s f) w).1 = .error e ∧
      (step (.createAlliance s f) w).2 = { w with oracle := (step (.createAlliance s f) w).2.oracle } := by
  obtain ⟨e, he⟩ := gate_create s f w hs
  have h : (step (.createAlliance s f) w).1 = .error e := by
    show (asTx (msgCreateAlliance s f) w).1 = .error e
    rw [asTx_apply]
    rcases hm : msgCreateAlliance s f w with ⟨r, w'⟩
    rw [hm] at he
    cases r with
    | ok a => cases he
    | error e' => simpa using he
  exact ⟨e, h, rejected_is_noop _ w e trivial h⟩

/-- non-vacuity: a valid create by the authority on an empty store succeeds -/
example : ∃ w', (step (.createAlliance .authority
    { denom := some 0, weight := some one, wmin := some 0, wmax := some (2 * one), takeRate := some 0,
      changeRate := some one, changeIntv := 0 }) (default : World)) = (.ok (), w') := ⟨_, rfl⟩

end C16
end Alliance
