/-
  C20 — Queries are exact views of delegations, unbondings and redelegations.
  The model's query functions (AllianceModel/Query.lean) follow the Go code's access path: index keys → the queue bucket
  the key points at → entry filter. The theorems relate them to the filter specification over the primary records:
  * soundness, every state: a reported unbonding is an entry of the delegator's own bucket at that completion time, of
    the requested validator / denom, with the entry's amount — nothing foreign (this is what failed before the fix, D11);
  * completeness, given the index key: an entry whose index key is present is reported; a freshly queued unbonding has
    its key and is reported (`fresh_unbonding_is_reported`);
  * redelegation queries are literally the key-prefix filter of the primary records (both directions);
  * the reported delegation balance is the value `Undelegate` compares the requested amount with.
  The tie to the real query server is per step: `Q` lines of the trace carry the real answers and the driver compares
  them with these functions evaluated on the observed state.
  INV-I (`index_and_queue_agree_in_every_history`, AllianceProofs/IndexInv + IndexHistory): in every state of every
  history the index is duplicate-free, every entry has its key and every key has an entry, so completeness holds in all
  reachable states (`every_pending_entry_is_reported…`). Not proved: the exact multiplicity as a list equality.
  Known finding mirrored by the model: `qUnbondingsByDelegator` ranges over whitelisted assets only.
-/
import AllianceProofs
import AllianceModel.Query
namespace Alliance
namespace C20
open Dec

/-- the pending entries the queue holds for a delegator at a completion time -/
def PendingAt (w : World) (t : Time) (del : Acct) (e : Undel) : Prop := e ∈ bucketAt w t del

theorem rows_of_key_sound (w : World) (del : Acct) (d : Denom) (k : UndelIdxKey) (r : UnbondingRow)
    (h : r ∈ rowsOfIndexKey w del d k) :
    r.1 = k.1 ∧ r.2.1 = k.2.1 ∧ r.2.2.1 = d ∧
    ∃ e, PendingAt w k.2.1 del e ∧ e.val = k.1 ∧ e.denom = d ∧ e.amount = r.2.2.2 := by
  unfold rowsOfIndexKey at h
  obtain ⟨e, he, rfl⟩ := List.mem_map.mp h
  obtain ⟨hm, hf⟩ := List.mem_filter.mp he
  simp only [Bool.and_eq_true, beq_iff_eq] at hf
  exact ⟨hf.1, rfl, hf.2, e, hm, hf.1, hf.2, rfl⟩

/-- `AllianceUnbondings(denom, delegator, validator)` reports only that delegator's pending entries of that validator
    and denom, each with its own completion time and amount -/
theorem unbondings_sound (w : World) (d : Denom) (del : Acct) (v : ValId) (r : UnbondingRow)
    (h : r ∈ qUnbondings w d del v) :
    r.1 = v ∧ r.2.2.1 = d ∧ ∃ e, PendingAt w r.2.1 del e ∧ e.val = v ∧ e.denom = d ∧ e.amount = r.2.2.2 := by
  unfold qUnbondings at h
  obtain ⟨k, hk, hr⟩ := List.mem_flatMap.mp h
  obtain ⟨_, hf⟩ := List.mem_filter.mp hk
  simp only [Bool.and_eq_true, beq_iff_eq] at hf
  obtain ⟨a1, a2, a3, e, he, e1, e2, e3⟩ := rows_of_key_sound w del d k r hr
  exact ⟨a1.trans hf.1.1, a3, e, by rw [a2]; exact he, e1.trans hf.1.1, e2, e3⟩

/-- `AllianceUnbondingsByDenomAndDelegator` reports only that delegator's pending entries of that denom -/
theorem unbondings_by_denom_sound (w : World) (d : Denom) (del : Acct) (r : UnbondingRow)
    (h : r ∈ qUnbondingsByDenomAndDelegator w d del) :
    r.2.2.1 = d ∧ ∃ e, PendingAt w r.2.1 del e ∧ e.val = r.1 ∧ e.denom = d ∧ e.amount = r.2.2.2 := by
  unfold qUnbondingsByDenomAndDelegator at h
  obtain ⟨k, hk, hr⟩ := List.mem_flatMap.mp h
  obtain ⟨a1, a2, a3, e, he, e1, e2, e3⟩ := rows_of_key_sound w del d k r hr
  exact ⟨a3, e, by rw [a2]; exact he, e1.trans a1.symm, e2, e3⟩

/-- `AllianceUnbondingsByDelegator` reports only that delegator's pending entries -/
theorem unbondings_by_delegator_sound (w : World) (del : Acct) (r : UnbondingRow)
    (h : r ∈ qUnbondingsByDelegator w del) :
    ∃ e, PendingAt w r.2.1 del e ∧ e.val = r.1 ∧ e.denom = r.2.2.1 ∧ e.amount = r.2.2.2 := by
  unfold qUnbondingsByDelegator at h
  obtain ⟨a, _, hr⟩ := List.mem_flatMap.mp h
  obtain ⟨a3, e, he, e1, e2, e3⟩ := unbondings_by_denom_sound w a.denom del r hr
  exact ⟨e, he, e1, e2.trans a3.symm, e3⟩

/-- completeness given the index key: a pending entry whose (validator, completion, denom, delegator) key is in the
    index is reported by the three-argument query, with its amount -/
theorem unbondings_complete (w : World) (d : Denom) (del : Acct) (v : ValId) (t : Time) (e : Undel)
    (he : PendingAt w t del e) (hv : e.val = v) (hd : e.denom = d) (hk : (v, t, d, del) ∈ w.undelIndex) :
    (v, t, d, e.amount) ∈ qUnbondings w d del v := by
  unfold qUnbondings
  refine List.mem_flatMap.mpr ⟨(v, t, d, del), List.mem_filter.mpr ⟨hk, by simp⟩, ?_⟩
  unfold rowsOfIndexKey
  refine List.mem_map.mpr ⟨e, List.mem_filter.mpr ⟨he, by simp [hv, hd]⟩, ?_⟩
  simp [hv, hd]

theorem unbondings_by_denom_complete (w : World) (d : Denom) (del : Acct) (v : ValId) (t : Time) (e : Undel)
    (he : PendingAt w t del e) (hv : e.val = v) (hd : e.denom = d) (hk : (v, t, d, del) ∈ w.undelIndex) :
    (v, t, d, e.amount) ∈ qUnbondingsByDenomAndDelegator w d del := by
  unfold qUnbondingsByDenomAndDelegator
  refine List.mem_flatMap.mpr ⟨(v, t, d, del), List.mem_filter.mpr ⟨hk, by simp⟩, ?_⟩
  unfold rowsOfIndexKey
  refine List.mem_map.mpr ⟨e, List.mem_filter.mpr ⟨he, by simp [hv, hd]⟩, ?_⟩
  simp [hv, hd]

theorem mem_setInsert {κ : Type} [DecidableEq κ] [Ord κ] (l : List κ) (k : κ) : k ∈ setInsert l k := by
  induction l with
  | nil => simp [setInsert]
  | cons k' t ih =>
    unfold setInsert
    split
    · next h => rw [h]; exact List.mem_cons_self ..
    · split
      · exact List.mem_cons_self ..
      · exact List.mem_cons_of_mem _ ih

/-- an unbonding that has just been queued is reported, with the amount and the completion time that end-of-block
    processing will use -/
theorem fresh_unbonding_is_reported (del : Acct) (v : ValId) (d : Denom) (amt : Int) (w : World) :
    (v, w.time + w.staking.unbondingTime, d, amt) ∈ qUnbondings (queueUndelegation del v d amt w).2 d del v := by
  have hst := queueUndelegation_state del v d amt w
  refine unbondings_complete _ d del v _ { del := del, val := v, denom := d, amount := amt } ?_ rfl rfl ?_
  · unfold PendingAt bucketAt
    rw [hst]
    simp only [AL.get_set_eq, Option.getD]
    exact List.mem_append_right _ (List.mem_singleton.mpr rfl)
  · rw [hst]
    exact mem_setInsert _ _

/-- the redelegation query is exactly the (delegator, denom) key-prefix filter of the primary records -/
theorem redelegations_exact (w : World) (d : Denom) (del : Acct) (r : RedelRow) :
    r ∈ qRedelegations w d del ↔
      ∃ p ∈ w.redels, p.1.1 = del ∧ p.1.2.1 = d ∧ r = (p.2.src, p.2.dst, p.1.2.2.2, p.2.amount) := by
  unfold qRedelegations
  constructor
  · intro h
    obtain ⟨p, hp, rfl⟩ := List.mem_map.mp h
    obtain ⟨hm, hf⟩ := List.mem_filter.mp hp
    simp only [Bool.and_eq_true, beq_iff_eq] at hf
    exact ⟨p, hm, hf.1, hf.2, rfl⟩
  · rintro ⟨p, hm, h1, h2, rfl⟩
    exact List.mem_map.mpr ⟨p, List.mem_filter.mpr ⟨hm, by simp [h1, h2]⟩, rfl⟩

theorem redelegations_by_delegator_exact (w : World) (del : Acct) (r : RedelRow) :
    r ∈ qRedelegationsByDelegator w del ↔
      ∃ p ∈ w.redels, p.1.1 = del ∧ r = (p.2.src, p.2.dst, p.1.2.2.2, p.2.amount) := by
  unfold qRedelegationsByDelegator
  constructor
  · intro h
    obtain ⟨p, hp, rfl⟩ := List.mem_map.mp h
    obtain ⟨hm, hf⟩ := List.mem_filter.mp hp
    simp only [beq_iff_eq] at hf
    exact ⟨p, hm, hf, rfl⟩
  · rintro ⟨p, hm, h1, rfl⟩
    exact List.mem_map.mpr ⟨p, List.mem_filter.mpr ⟨hm, by simp [h1]⟩, rfl⟩

/-- the reported delegation: the stored shares, and as balance the token value `Undelegate` bounds the request with -/
theorem delegation_reports_stored_position (w : World) (del : Acct) (v : ValId) (d : Denom) (s : Dec) (b : Int)
    (sv : SVal) (a : Asset) (dl : Delegation) (hv : AL.get w.staking.vals v = some sv) (ha : getAsset w d = some a)
    (hd : getDelegation w del v d = some dl) (h : qDelegation w del v d = .ok (s, b)) :
    s = dl.shares ∧ delegationTokensWithShares dl.shares ((AL.get w.vals v).getD ValInfo.empty) a = .ok b := by
  unfold qDelegation at h
  simp only [hv, ha, hd] at h
  split at h
  · next b' hb => injection h with h; injection h with h1 h2; subst h1 h2; exact ⟨rfl, hb⟩
  · cases h

/-- a missing position is reported as zero, never as an error -/
theorem delegation_missing_is_zero (w : World) (del : Acct) (v : ValId) (d : Denom) (sv : SVal) (a : Asset)
    (hv : AL.get w.staking.vals v = some sv) (ha : getAsset w d = some a) (hd : getDelegation w del v d = none) :
    qDelegation w del v d = .ok (0, 0) := by
  unfold qDelegation
  simp only [hv, ha, hd]

/-- the contract binding reports the same balance as the gRPC query for an existing position -/
theorem binding_balance_equals_grpc_balance (w : World) (del : Acct) (v : ValId) (d : Denom) (b : Int)
    (sv : SVal) (a : Asset) (dl : Delegation) (hv : AL.get w.staking.vals v = some sv) (ha : getAsset w d = some a)
    (hd : getDelegation w del v d = some dl) :
    bDelegation w del v d = .ok b ↔ qDelegation w del v d = .ok (dl.shares, b) := by
  unfold bDelegation qDelegation
  simp only [hv, ha, hd]
  cases delegationTokensWithShares dl.shares ((AL.get w.vals v).getD ValInfo.empty) a with
  | ok b' =>
    constructor
    · intro h; injection h with h; subst h; rfl
    · intro h; injection h with h; injection h with _ h2; subst h2; rfl
  | error e => constructor <;> (intro h; cases h)

/-- …but a MISSING position is an error for the binding and a zero for the gRPC query -/
theorem binding_differs_on_missing_position (w : World) (del : Acct) (v : ValId) (d : Denom) (sv : SVal) (a : Asset)
    (hv : AL.get w.staking.vals v = some sv) (ha : getAsset w d = some a) (hd : getDelegation w del v d = none) :
    bDelegation w del v d = .error (.err "no_delegation") ∧ qDelegation w del v d = .ok (0, 0) := by
  unfold bDelegation qDelegation
  simp only [hv, ha, hd, and_self]

/-- completeness in every reachable state: index and queue agree along every history (INV-I, `reach_ix`), so EVERY
    pending entry of the delegator with that validator and denom is reported by the three-argument query … -/
theorem every_pending_entry_is_reported (w : World) (hix : IX w) (d : Denom) (del : Acct) (v : ValId) (t : Time)
    (es : List Undel) (e : Undel) (hb : ((t, del), es) ∈ w.undelQueue) (he : e ∈ es) (hv : e.val = v) (hd : e.denom = d) :
    (v, t, d, e.amount) ∈ qUnbondings w d del v := by
  have hget : AL.get w.undelQueue (t, del) = some es := AL.mem_get undelKeyOrder _ _ hix.qsorted hb
  refine unbondings_complete w d del v t e ?_ hv hd ?_
  · unfold PendingAt bucketAt; rw [hget]; exact he
  · have := hix.covered _ hb e he
    rw [hv, hd] at this; exact this

/-- … and by the per-denom query -/
theorem every_pending_entry_is_reported_by_denom (w : World) (hix : IX w) (d : Denom) (del : Acct) (t : Time)
    (es : List Undel) (e : Undel) (hb : ((t, del), es) ∈ w.undelQueue) (he : e ∈ es) (hd : e.denom = d) :
    (e.val, t, d, e.amount) ∈ qUnbondingsByDenomAndDelegator w d del := by
  have hget : AL.get w.undelQueue (t, del) = some es := AL.mem_get undelKeyOrder _ _ hix.qsorted hb
  refine unbondings_by_denom_complete w d del e.val t e ?_ rfl hd ?_
  · unfold PendingAt bucketAt; rw [hget]; exact he
  · have := hix.covered _ hb e he
    rw [hd] at this; exact this

/-- the agreement of index and queue is an invariant of every history -/
theorem index_and_queue_agree_in_every_history (w w' : World) (hix : IX w) (hr : ReachU w w') : IX w' := reach_ix w w' hix hr

/-- refutation witness (known finding): unbondings of a deleted alliance are not reported by the per-delegator query -/
def exDeleted : World := { (default : World) with
  undelQueue := [((100, 10), [{ del := 10, val := 0, denom := 0, amount := 5 }])]
  undelIndex := [(0, 100, 0, 10)] }
theorem by_delegator_misses_deleted_asset :
    qUnbondingsByDelegator exDeleted 10 = [] ∧ qUnbondingsByDenomAndDelegator exDeleted 0 10 = [(0, 100, 0, 5)] := by
  decide

/-! ## exactness as a list equality -/

/-- in a state where index and queue agree, `GetUnbondings(denom, delegator, validator)` returns EXACTLY what a direct scan
    of the queue by the filter returns (`specUnbondings`: the delegator's buckets in completion order, within a bucket the
    entries of that validator and denom in bucket order): every pending entry once, nothing else, with its own amount and
    completion time (proof: AllianceProofs/QueryExact — the completion times reached through the index are the completion
    times of the delegator's buckets holding a match, as strictly sorted lists with the same members) -/
theorem unbondings_query_is_exact (w : World) (hix : IX w) (d : Denom) (del : Acct) (v : ValId) :
    qUnbondings w d del v = specUnbondings w d del v := qUnbondings_exact w hix d del v

/-- … in every state of every history -/
theorem unbondings_query_is_exact_in_every_history (w0 w : World) (h0 : IX w0) (hr : ReachU w0 w) (d : Denom) (del : Acct)
    (v : ValId) : qUnbondings w d del v = specUnbondings w d del v := qUnbondings_exact w (reach_ix w0 w h0 hr) d del v

/-- non-vacuity: two buckets of delegator 10, three entries of which two match (validator 0, denom 0) -/
example :
    let w : World := { (default : World) with
      undelQueue := [((100, 10), [{ del := 10, val := 0, denom := 0, amount := 5 }, { del := 10, val := 1, denom := 0, amount := 6 }]),
                     ((200, 10), [{ del := 10, val := 0, denom := 0, amount := 7 }])]
      undelIndex := [(0, 100, 0, 10), (0, 200, 0, 10), (1, 100, 0, 10)] }
    qUnbondings w 0 10 0 = [(0, 100, 0, 5), (0, 200, 0, 7)] ∧ specUnbondings w 0 10 0 = [(0, 100, 0, 5), (0, 200, 0, 7)] := by
  decide


end C20
end Alliance
