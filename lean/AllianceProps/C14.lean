/-
  C14 — Reward weight lifecycle: bounded, exact decay schedule, not retroactive.
-/
import AllianceProofs
import AllianceProofs.ArithTie
import AllianceProps.C09
namespace Alliance
namespace C14
open Dec

/-- an asset's reward weight always lies within its configured range — in every state of every history
    (governance updates with any field values, decay at any block schedule, several assets decaying in one block) -/
theorem weight_in_range_inv (ops : List Op) (w : World) (h : AssetsValid w) :
    ∀ p ∈ (run w ops).assets, p.2.wmin ≤ p.2.weight ∧ p.2.weight ≤ p.2.wmax := by
  intro p hp
  obtain ⟨_, _, h3, h4, _, _⟩ := run_valid ops w h p hp
  exact ⟨h3, h4⟩

/-- exact decay: after n whole intervals the weight is clamp(w · rate^n) with the SDK's rounded `Power` and `Mul`
    (`none`: Go panics with "Int overflow", known finding D15) -/
theorem decay_exact (a : Asset) (n : Nat) (w2 : Dec) (h : decayedWeight a n = some w2) :
    ∃ mult w0, powerChk a.changeRate n = some mult ∧ mulChk a.weight mult = some w0 ∧
      w2 = (if (if w0 < a.wmin then a.wmin else w0) > a.wmax then a.wmax else (if w0 < a.wmin then a.wmin else w0)) := by
  unfold decayedWeight at h
  split at h
  · cases h
  · rename_i mult hm
    split at h
    · cases h
    · rename_i w0 hw
      injection h with h
      exact ⟨mult, w0, hm, hw, h.symm⟩

/-- the clamp: whatever the rate, intervals and history, a decayed weight is inside the range -/
theorem decay_clamped (a : Asset) (n : Nat) (w2 : Dec) (hmm : a.wmin ≤ a.wmax) (h : decayedWeight a n = some w2) :
    a.wmin ≤ w2 ∧ w2 ≤ a.wmax := decayedWeight_in_range a n w2 hmm h

/-- decay is applied only when it is configured and a whole interval has elapsed since the decay clock -/
theorem decay_only_when_due (now : Time) (a : Asset) :
    decayDue now a = true ↔ (a.changeIntv ≠ 0 ∧ a.changeRate ≠ one ∧ a.lastChange + a.changeIntv ≤ now) := by
  unfold decayDue
  simp only [Bool.and_eq_true, Bool.not_eq_true', Bool.or_eq_false_iff, decide_eq_false_iff_not, Int.not_lt]
  constructor
  · rintro ⟨⟨h1, h2⟩, h3⟩
    exact ⟨h1, h2, by unfold Time Dur at *; omega⟩
  · rintro ⟨h1, h2, h3⟩
    exact ⟨⟨h1, h2⟩, by unfold Time Dur at *; omega⟩

/-- the decay clock advances by exactly n whole intervals and never passes the block time -/
theorem decay_clock_bounded (now : Time) (a : Asset) (hi : 0 < a.changeIntv) (hd : a.lastChange + a.changeIntv ≤ now) :
    a.lastChange + a.changeIntv * intervalsSince now a.lastChange a.changeIntv ≤ now ∧
    now < a.lastChange + a.changeIntv * (intervalsSince now a.lastChange a.changeIntv + 1) ∧
    1 ≤ intervalsSince now a.lastChange a.changeIntv := by
  have hb := C09.clock_bounded now a.lastChange a.changeIntv hi (by unfold Time Dur at *; omega)
  refine ⟨hb.1, hb.2.1, ?_⟩
  obtain ⟨h1, h2, h3⟩ := hb
  generalize intervalsSince now a.lastChange a.changeIntv = n at *
  by_cases hn : 1 ≤ n
  · exact hn
  · have hn0 : n = 0 := by omega
    subst hn0
    simp at h2
    unfold Time Dur at *
    omega

/-- switching decay on (rate or interval changes while the old schedule was inactive) restarts the decay clock at
    the block time, so intervals that elapsed before decay was configured are never applied retroactively;
    otherwise the clock is left as requested -/
theorem decay_clock_starts_when_enabled (old new : Asset) (now : Time)
    (hchg : new.changeRate ≠ old.changeRate ∨ new.changeIntv ≠ old.changeIntv)
    (hoff : old.changeRate = one ∨ old.changeIntv = 0) : (applyUpdate old new now).lastChange = now := by
  unfold applyUpdate
  simp [hchg, hoff]

theorem decay_clock_kept_otherwise (old new : Asset) (now : Time)
    (h : ¬ ((new.changeRate ≠ old.changeRate ∨ new.changeIntv ≠ old.changeIntv) ∧ (old.changeRate = one ∨ old.changeIntv = 0))) :
    (applyUpdate old new now).lastChange = new.lastChange := by
  unfold applyUpdate
  simp [h]

/-- warm-up gating: before its reward start time an asset is not charged the take rate (see also C09), receives no
    share of a reward (it is skipped by `shouldSkipRewardsToAsset`) … -/
theorem warmup_no_rewards (now : Time) (a : Asset) (info : ValInfo) (h : now < a.startTime) :
    shouldSkipRewardsToAsset now a info = true := by
  unfold shouldSkipRewardsToAsset rewardsStarted
  have : ¬ (now ≥ a.startTime) := by unfold Time at *; omega
  simp [this]

/-- … and is initialised exactly from the first end-of-block at or after its start time -/
theorem warmup_initialised_iff (now : Time) (a : Asset) :
    (initStep now a).isInit = (a.isInit || decide (now ≥ a.startTime)) := by
  unfold initStep rewardsStarted
  by_cases h1 : a.isInit = true <;> by_cases h2 : now ≥ a.startTime <;> simp [h1, h2]

/-- `RewardsStarted` — the gate of rewards, voting power and take rate during the warm-up — is what the source says now -/
theorem rewards_started_is_the_source (a : Asset) (t : Time) :
    Generated.RewardsStarted a t = .ok (rewardsStarted a t) := ArithTie.rewardsStarted_is_source a t

end C14
end Alliance
