namespace Alliance.Generated
end Alliance.Generated
