/-
  alliance-driver — replays a harness trace on the model.
  Input (stdin): groups of four lines  S <pre-state> / O <op> / R <observed result> / S <observed post-state>.
  For every step the model's `step` is run from the OBSERVED pre-state and its result and post-state are
  compared with the observed ones, component by component.  Lines starting with '#' are echoed.
-/
import AllianceModel
open Alliance Alliance.Trace

/-- components not predicted for a given operation kind -/
def maskFor (op : XOp) : List String :=
  match op with
  | .op .env => ["*"]
  | .op (.slash _ _) => ["staking", "supply", "bank.pools"]
  | _ => []

def isPoolRow (p : (Acct × Denom) × Int) : Bool := p.1.1 == accBonded || p.1.1 == accNotBonded

def maskWorld (mask : List String) (w : World) : World :=
  if mask.contains "bank.pools" then { w with bank := w.bank.filter (fun p => !isPoolRow p) } else w

def compareStep (idx : Nat) (pre : World) (op : XOp) (wd : List (ValId × Coins)) (obsRes : String) (post : World) :
    List String := Id.run do
  let mask := maskFor op
  if mask.contains "*" then return [s!"step {idx} skip"]
  let (res, w') := xstep op { pre with oracle := wd }
  let mut out : List String := []
  let mres := rResult res
  if mres ≠ obsRes then
    out := out ++ [s!"step {idx} diverge component=result model=[{mres}] impl=[{obsRes}]"]
  if w'.oracle.length ≠ 0 then
    out := out ++ [s!"step {idx} diverge component=oracle model=[unused {w'.oracle.length}] impl=[0]"]
  let cm := components (maskWorld mask w')
  let co := components (maskWorld mask post)
  for (m, o) in cm.zip co do
    if mask.contains m.1 then continue
    if m.2 ≠ o.2 then
      out := out ++ [s!"step {idx} diverge component={m.1} model=[{m.2}] impl=[{o.2}]"]
  if out.isEmpty then return [s!"step {idx} ok"]
  return out

partial def loop (h : IO.FS.Stream) (idx : Nat) : IO Unit := do
  let l1 ← h.getLine
  if l1.isEmpty then return ()
  let l1 := l1.trimAscii.toString
  if l1.startsWith "#" || l1.isEmpty then
    IO.println l1
    loop h idx
  else
    let l2 := (← h.getLine).trimAscii.toString
    let l3 := (← h.getLine).trimAscii.toString
    let l4 := (← h.getLine).trimAscii.toString
    match runP world l1, runP op l2, runP world l4 with
    | .ok pre, .ok (o, wd), .ok post =>
      let obsRes := (l3.drop 2).toString
      for s in compareStep idx pre o wd obsRes post do IO.println s
    | .error e, _, _ => IO.println s!"step {idx} parse-error pre: {e}"
    | _, .error e, _ => IO.println s!"step {idx} parse-error op: {e}"
    | _, _, .error e => IO.println s!"step {idx} parse-error post: {e}"
    (← IO.getStdout).flush
    loop h (idx + 1)

def main : IO Unit := do
  loop (← IO.getStdin) 0
