/-
  alliance-driver — replays a harness trace on the model.
  Input (stdin): groups of four lines  S <pre-state> / O <op> / R <observed result> / S <observed post-state>.
  For every step the model's `step` is run from the OBSERVED pre-state and its result and post-state are
  compared with the observed ones, component by component.  Lines starting with '#' are echoed.
-/
import AllianceModel
import AllianceProofs.ScopeCheck
import AllianceProofs.InvCheck
import AllianceProofs.MoneyCheck
import AllianceProofs.RestartAll
open Alliance Alliance.Trace

/-- components not predicted for a given operation kind -/
def maskFor (op : XOp) : List String :=
  match op with
  | .op .env => ["*"]
  | .op (.slash _ _) => ["staking", "supply", "bank.pools"]
  | _ => []

def isPoolRow (p : (Acct × Denom) × Int) : Bool := p.1.1 == accBonded || p.1.1 == accNotBonded

def maskWorld (mask : List String) (w : World) : World :=
  if mask.contains "bank.pools" then { w with bank := w.bank.filter (fun p => !isPoolRow p) } else w

def compareStep (idx : Nat) (pre : World) (op : XOp) (wd : List (ValId × Coins)) (obsRes : String) (post : World) :
    List String := Id.run do
  let mask := maskFor op
  if mask.contains "*" then return [s!"step {idx} skip"]
  let (res, w') := xstep op { pre with oracle := wd }
  let mut out : List String := []
  let mres := rResult res
  -- the model's integers are unbounded: an implementation step that panics with the fixed-point overflow (LegacyDec beyond
  -- 315 bits, Int beyond 256) where the model does not is outside the arithmetic the model covers (mirrored only in weight
  -- decay, D15/D18); the harness's C05 / C17 monitors judge it
  if obsRes = "panic overflow" && mres ≠ obsRes then return [s!"step {idx} skip-overflow"]
  if mres ≠ obsRes then
    out := out ++ [s!"step {idx} diverge component=result model=[{mres}] impl=[{obsRes}]"]
  if w'.oracle.length ≠ 0 then
    out := out ++ [s!"step {idx} diverge component=oracle model=[unused {w'.oracle.length}] impl=[0]"]
  let cm := components (maskWorld mask w')
  let co := components (maskWorld mask post)
  for (m, o) in cm.zip co do
    if mask.contains m.1 then continue
    if m.2 ≠ o.2 then
      out := out ++ [s!"step {idx} diverge component={m.1} model=[{m.2}] impl=[{o.2}]"]
  -- the custody theorems, instantiated on this observed step: hypotheses (Core, OpScope, non-negative responses)
  -- and conclusions (gap did not fall, Core kept, custody covers what is owed), evaluated with the theorems' own definitions
  match op with
  | .op o =>
    if obsRes = "ok" && wd.all (fun p => p.2.all (fun c => decide (0 ≤ c.2))) then
      for msg in theoremCheckC01 o pre post do
        out := out ++ [s!"step {idx} diverge component=theorem.C01 model=[{msg}] impl=[observed state]"]
    -- the record stores are sorted and keyed before and after every step, whatever its outcome (KeepStores / KeepRK)
    for (comp, msg) in theoremCheckStores pre post do
      out := out ++ [s!"step {idx} diverge component={comp} model=[{msg}] impl=[observed state]"]
    -- INV-I / INV-R: the invariants of `reach_ix` / `reach_rx` on the observed states, `step_ix` / `step_rx` on the step
    if obsRes = "ok" then
      for (comp, msg) in theoremCheckInv pre post do
        out := out ++ [s!"step {idx} diverge component={comp} model=[{msg}] impl=[observed state]"]
      -- the money-side theorems (C02 conservation at the block boundary, C12 pool never debited, C04 other users untouched,
      -- C15 hop blocked) instantiated on this observed step
      for (comp, msg) in theoremCheckMoney o (wd.all (fun p => p.2.all (fun c => decide (0 ≤ c.2)))) pre post do
        out := out ++ [s!"step {idx} diverge component={comp} model=[{msg}] impl=[observed state]"]
      -- C13: every successful user operation settles the validator(s) involved first (Settles.lean)
      for (comp, msg) in theoremCheckSettles o wd pre do
        out := out ++ [s!"step {idx} diverge component={comp} model=[{msg}] impl=[observed state]"]
  | .reimport =>
    -- the restart theorem (C18) instantiated on this observed export → wipe → import
    if obsRes = "ok" then
      for (comp, msg) in theoremCheckRestart pre post do
        out := out ++ [s!"step {idx} diverge component={comp} model=[{msg}] impl=[observed state]"]
  if out.isEmpty then return [s!"step {idx} ok"]
  return out

/-- a query line refers to the observed post-state of the step before it -/
def compareQuery (idx : Nat) (last : Option World) (line : String) : String :=
  match last, (line.drop 2).toString.splitOn " | " with
  | some w, [q, obs] =>
    match answerQuery w (q.splitOn " ") with
    | some m => if m = obs then s!"step {idx} qok" else s!"step {idx} diverge component=query model=[{q} -> {m}] impl=[{q} -> {obs}]"
    | none => s!"step {idx} parse-error query: {q}"
  | _, _ => s!"step {idx} parse-error query: {line}"

partial def loop (h : IO.FS.Stream) (idx : Nat) (last : Option World := none) : IO Unit := do
  let l1 ← h.getLine
  if l1.isEmpty then return ()
  let l1 := l1.trimAscii.toString
  if l1.startsWith "#" || l1.isEmpty then
    IO.println l1
    loop h idx last
  else if l1.startsWith "Q " then
    let r := compareQuery (idx - 1) last l1
    if !r.endsWith "qok" then IO.println r
    loop h idx last
  else
    let l2 := (← h.getLine).trimAscii.toString
    let l3 := (← h.getLine).trimAscii.toString
    let l4 := (← h.getLine).trimAscii.toString
    let postW := runP world l4
    match runP world l1, runP op l2, postW with
    | .ok pre, .ok (o, wd), .ok post =>
      let obsRes := (l3.drop 2).toString
      for s in compareStep idx pre o wd obsRes post do IO.println s
    | .error e, _, _ => IO.println s!"step {idx} parse-error pre: {e}"
    | _, .error e, _ => IO.println s!"step {idx} parse-error op: {e}"
    | _, _, .error e => IO.println s!"step {idx} parse-error post: {e}"
    (← IO.getStdout).flush
    loop h (idx + 1) (match postW with | .ok post => some post | .error _ => none)

def main : IO Unit := do
  loop (← IO.getStdin) 0
