/-
  Monad.lean — the effect discipline: state OUTSIDE, error INSIDE, so that a keeper function which
  returns an error or panics half-way keeps the writes it already made, exactly as the Go code does.
  `asTx` gives message handlers baseapp's cache-wrapped semantics (rollback on failure).
-/
import AllianceModel.Coins
namespace Alliance

def M (α : Type) : Type := World → (Except Err α × World)

namespace M
@[inline] def pure' {α} (a : α) : M α := fun w => (.ok a, w)
@[inline] def bind' {α β} (m : M α) (f : α → M β) : M β := fun w =>
  match m w with
  | (.ok a, w') => f a w'
  | (.error e, w') => (.error e, w')
end M

instance : Monad M where
  pure := M.pure'
  bind := M.bind'

@[inline] def getW : M World := fun w => (.ok w, w)
@[inline] def setW (w' : World) : M Unit := fun _ => (.ok (), w')
@[inline] def modifyW (f : World → World) : M Unit := fun w => (.ok (), f w)
@[inline] def throwE {α} (code : String) : M α := fun w => (.error (.err code), w)
@[inline] def panicE {α} (code : String) : M α := fun w => (.error (.panic code), w)

/-- `if c then return error` as a statement (keeps functions linear chains of binds, without join points) -/
def guardE (c : Prop) [Decidable c] (code : String) : M Unit := if c then throwE code else pure ()

/-- a field that must not be nil: error `code` otherwise -/
def requireSome {α} (x : Option α) (code : String) : M α :=
  match x with
  | some a => pure a
  | none => throwE code

/-- a field whose nil value makes the Go code panic (nil `LegacyDec` dereference) -/
def requireSomeP {α} (x : Option α) : M α :=
  match x with
  | some a => pure a
  | none => panicE "nil"

/-- `if c then panic` as a statement -/
def guardP (c : Prop) [Decidable c] (code : String) : M Unit := if c then panicE code else pure ()

/-- run `m`; on an ordinary error continue with `none` (used where Go ignores or inspects `err`) -/
@[inline] def tryCatchErr {α} (m : M α) : M (Except Err α) := fun w =>
  match m w with
  | (.ok a, w') => (.ok (.ok a), w')
  | (.error e, w') => (.ok (.error e), w')

/-- explicit loop over a list (instead of `forIn`) so that proofs are plain structural inductions -/
def forEachM {α} (f : α → M Unit) : List α → M Unit
  | [] => pure ()
  | x :: xs => do f x; forEachM f xs

/-- message-handler semantics: all writes are discarded unless the handler succeeds -/
def asTx {α} (m : M α) : M α := fun w =>
  match m w with
  | (.ok a, w') => (.ok a, w')
  | (.error e, w') => (.error e, { w with oracle := w'.oracle })  -- the response tape is input, not state

/-! ### bank -/

def bankBalance (w : World) (a : Acct) (d : Denom) : Int := (AL.get w.bank (a, d)).getD 0
def supplyOf (w : World) (d : Denom) : Int := (AL.get w.supply d).getD 0

def setBalance (a : Acct) (d : Denom) (x : Int) : M Unit :=
  modifyW fun w => { w with bank := AL.set w.bank (a, d) x }

/-- `subUnlockedCoins` + `addCoins` for one coin -/
def sendCoin (src dst : Acct) (d : Denom) (x : Int) : M Unit := do
  let w ← getW
  let b := bankBalance w src d
  guardE (b < x) "insufficient_funds"
  setBalance src d (b - x)
  let w ← getW
  setBalance dst d (bankBalance w dst d + x)

/-- `SendCoins`: coin by coin, as `subUnlockedCoins` loops (all debits first, then all credits) -/
def sendCoins (src dst : Acct) (cs : Coins) : M Unit := do
  forEachM (fun (c : Denom × Int) => do
      let w ← getW
      let b := bankBalance w src c.1
      guardE (b < c.2) "insufficient_funds"
      setBalance src c.1 (b - c.2)) cs
  forEachM (fun (c : Denom × Int) => do
      let w ← getW
      setBalance dst c.1 (bankBalance w dst c.1 + c.2)) cs

def mintCoin (acct : Acct) (d : Denom) (x : Int) : M Unit := do
  let w ← getW
  setBalance acct d (bankBalance w acct d + x)
  modifyW fun w => { w with supply := AL.set w.supply d (supplyOf w d + x) }

def burnCoin (acct : Acct) (d : Denom) (x : Int) : M Unit := do
  let w ← getW
  let b := bankBalance w acct d
  guardE (b < x) "insufficient_funds"
  setBalance acct d (b - x)
  modifyW fun w => { w with supply := AL.set w.supply d (supplyOf w d - x) }

/-! ### distribution oracle -/

/-- `WithdrawDelegationRewards(module, val)`: the next recorded response; the coins arrive in the module account
    from the distribution account. A missing or mismatching response is a correspondence failure. -/
def withdrawRewards (v : ValId) : M Coins := do
  let w ← getW
  match w.oracle with
  | [] => throwE "oracle_exhausted"
  | (v', cs) :: rest =>
    guardE (v' ≠ v) "oracle_mismatch"
    modifyW fun w => { w with oracle := rest }
    sendCoins accDistr accModule cs
    pure cs

end Alliance
