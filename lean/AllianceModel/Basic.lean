def hello := "world"
