/-
  GoSem.lean — the meaning given to the cosmossdk.io/math and sdk primitives that the regenerated arithmetic helpers
  (`Generated/Arith.lean`, translated from x/alliance/types on every run) are written in. Hand-written, small, and part
  of the trusted base: `Quo` panics on a zero divisor, `NewCoin` on a negative amount; everything else is total.
-/
import AllianceModel.Keeper
namespace Alliance
namespace GoSem
open Dec

def isZero (a : Dec) : Bool := decide (a = 0)
def decFromInt (n : Int) : Dec := ofInt n
def oneDec : Dec := one
def rounder : Dec := Dec.rounder
/-- `LegacyDec.Quo`: panics on a zero divisor -/
def quo (a b : Dec) : Except Err Dec := if b = 0 then .error (.panic "div_zero") else .ok (Dec.quo a b)
def mul (a b : Dec) : Dec := Dec.mul a b
def mulInt (a : Dec) (n : Int) : Dec := Dec.mulInt a n
def add (a b : Dec) : Dec := a + b
def sub (a b : Dec) : Dec := a - b
def truncateInt (a : Dec) : Int := Dec.truncateInt a
def intEq (a b : Int) : Bool := decide (a = b)
def truncateDec (a : Dec) : Dec := Dec.truncateDec a
def abs (a : Dec) : Dec := Dec.abs a
def lt (a b : Dec) : Bool := decide (a < b)
def gt (a b : Dec) : Bool := decide (a > b)
/-- `sdk.NewCoin(denom, amount)`: panics on a negative amount; the model carries the amount only -/
def newCoin (_d : Denom) (x : Int) : Except Err Int := newCoinAmt x
def totalDelegationSharesWithDenom (v : ValInfo) (d : Denom) : Dec := totalDelSharesWithDenom v d
def validatorSharesWithDenom (v : ValInfo) (d : Denom) : Dec := valSharesWithDenom v d

end GoSem
end Alliance
