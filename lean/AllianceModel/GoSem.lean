/-
  GoSem.lean — the meaning given to the cosmossdk.io/math and sdk primitives that the regenerated arithmetic helpers
  (`Generated/Arith.lean`, translated from x/alliance/types on every run) are written in. Hand-written, small, and part
  of the trusted base: `Quo` panics on a zero divisor, `NewCoin` on a negative amount; everything else is total.
-/
import AllianceModel.Keeper
namespace Alliance
namespace GoSem
open Dec

abbrev isZero (a : Dec) : Bool := decide (a = 0)
abbrev decFromInt (n : Int) : Dec := ofInt n
abbrev oneDec : Dec := one
abbrev rounder : Dec := Dec.rounder
/-- `LegacyDec.Quo`: panics on a zero divisor -/
def quo (a b : Dec) : Except Err Dec := if b = 0 then .error (.panic "div_zero") else .ok (Dec.quo a b)
abbrev mul (a b : Dec) : Dec := Dec.mul a b
abbrev mulInt (a : Dec) (n : Int) : Dec := Dec.mulInt a n
abbrev add (a b : Dec) : Dec := a + b
abbrev sub (a b : Dec) : Dec := a - b
abbrev truncateInt (a : Dec) : Int := Dec.truncateInt a
abbrev intEq (a b : Int) : Bool := decide (a = b)
abbrev truncateDec (a : Dec) : Dec := Dec.truncateDec a
abbrev abs (a : Dec) : Dec := Dec.abs a
abbrev lt (a b : Dec) : Bool := decide (a < b)
abbrev gt (a b : Dec) : Bool := decide (a > b)
/-- `sdk.NewCoin(denom, amount)`: panics on a negative amount; the model carries the amount only -/
def newCoin (_d : Denom) (x : Int) : Except Err Int := newCoinAmt x
abbrev totalDelegationSharesWithDenom (v : ValInfo) (d : Denom) : Dec := totalDelSharesWithDenom v d
abbrev validatorSharesWithDenom (v : ValInfo) (d : Denom) : Dec := valSharesWithDenom v d

/-- `sdk.NewDecCoins(coins...)` of an already valid coin set: the set itself (sorting/validation of a valid set is the identity) -/
abbrev newDecCoins (c : DecCoins) : DecCoins := c
abbrev amountOf (c : DecCoins) (d : Denom) : Dec := DecCoins.amountOf c d
/-- `sdk.NewDecCoins(sdk.NewDecCoinFromDec(d, x))` / `sdk.NewDecCoins(coin)`: a zero amount is dropped -/
abbrev singleDecCoin (d : Denom) (x : Dec) : DecCoins := DecCoins.single d x
/-- `DecCoins.Sub`: panics on a negative result -/
def decCoinsSub (a b : DecCoins) : Except Err DecCoins := Alliance.decCoinsSub a b

abbrev timeAfter (a b : Time) : Bool := decide (a > b)
abbrev timeEq (a b : Time) : Bool := decide (a = b)
abbrev timeBefore (a b : Time) : Bool := decide (a < b)

/-- `rh.Alliance == alliance` on an element of a reward-history list -/
abbrev allianceIs (r : RewardHistory) (a : Denom) : Bool := r.alliance == some a
/-- `rh.Alliance == ""`: the legacy entries without an alliance -/
abbrev allianceNone (r : RewardHistory) : Bool := r.alliance == none
/-- the zero value of a named slice result -/
abbrev nilHists : List RewardHistory := []
/-- `append(ris, rh)` -/
abbrev appendHist (l : List RewardHistory) (r : RewardHistory) : List RewardHistory := l ++ [r]

end GoSem
end Alliance
