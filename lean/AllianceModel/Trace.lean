/-
  Trace.lean — the line protocol between the Go harness and the model driver.
  Every line is a sequence of space-separated tokens; numbers are decimal integers (a `LegacyDec` travels
  as its raw 10^18-scaled integer, so no decimal parsing happens here); lists carry their length first.
-/
import AllianceModel.Genesis
import AllianceModel.Query
namespace Alliance
namespace Trace

abbrev P := StateT (List String) (Except String)

def tok : P String := do
  match (← get) with
  | [] => throw "unexpected end of line"
  | t :: rest => set rest; pure t

def expect (s : String) : P Unit := do
  let t ← tok
  if t ≠ s then throw s!"expected '{s}' got '{t}'"

def int : P Int := do
  let t ← tok
  match t.toInt? with
  | some i => pure i
  | none => throw s!"expected integer got '{t}'"

def nat : P Nat := do
  let i ← int
  if i < 0 then throw s!"expected natural got {i}"
  pure i.toNat

def bool : P Bool := do pure ((← int) ≠ 0)

def listOf {α} (p : P α) : P (List α) := do
  let n ← nat
  let rec go : Nat → List α → P (List α)
    | 0, acc => pure acc.reverse
    | k+1, acc => do let x ← p; go k (x :: acc)
  go n []

def optNat : P (Option Nat) := do
  let i ← int
  pure (if i < 0 then none else some i.toNat)

def optDec : P (Option Dec) := do
  let t ← tok
  if t = "nil" then pure none else
  match t.toInt? with
  | some i => pure (some i)
  | none => throw s!"expected integer or nil got '{t}'"

def hist : P (List RewardHistory) := do
  expect "H"
  listOf do
    let d ← nat; let a ← optNat; let i ← int
    pure { denom := d, alliance := a, index := i }

def decCoins : P DecCoins := listOf do let d ← nat; let a ← int; pure (d, a)
def coins : P Coins := listOf do let d ← nat; let a ← int; pure (d, a)

def asset : P (Denom × Asset) := do
  let d ← nat; let w ← int; let mn ← int; let mx ← int; let tr ← int; let t ← int; let s ← int
  let st ← int; let r ← int; let iv ← int; let lc ← int; let ini ← bool
  pure (d, { denom := d, weight := w, wmin := mn, wmax := mx, takeRate := tr, totalTokens := t, totalValShares := s,
             startTime := st, changeRate := r, changeIntv := iv, lastChange := lc, isInit := ini })

def valInfo : P (ValId × ValInfo) := do
  let v ← nat
  let h ← hist
  expect "D"; let d ← decCoins
  expect "V"; let vs ← decCoins
  pure (v, { hist := h, totalDelShares := d, valShares := vs })

def delegation : P (DelKey × Delegation) := do
  let del ← nat; let v ← nat; let d ← nat; let sh ← int; let ht ← nat
  let h ← hist
  pure ((del, v, d), { del := del, val := v, denom := d, shares := sh, hist := h, lastClaimHeight := ht })

def redelEntry : P Redel := do
  let del ← nat; let src ← nat; let dst ← nat; let d ← nat; let a ← int
  pure { del := del, src := src, dst := dst, denom := d, amount := a }

def undelEntry : P Undel := do
  let del ← nat; let v ← nat; let d ← nat; let a ← int
  pure { del := del, val := v, denom := d, amount := a }

def world : P World := do
  expect "S"
  expect "time"; let t ← int
  expect "height"; let h ← nat
  expect "params"; let pd ← int; let pi ← int; let pl ← int
  expect "flag"; let f ← bool
  expect "assets"; let assets ← listOf asset
  expect "vals"; let vals ← listOf valInfo
  expect "dels"; let dels ← listOf delegation
  expect "redels"; let redels ← listOf do
    let kdel ← nat; let kd ← nat; let kdst ← nat; let kt ← int
    let r ← redelEntry
    pure ((kdel, kd, kdst, kt), r)
  expect "rq"; let rq ← listOf do
    let t ← int; let es ← listOf redelEntry; pure (t, es)
  expect "ri"; let ri ← listOf do
    let s ← nat; let t ← int; let d ← nat; let dst ← nat; let del ← nat; pure (s, t, d, dst, del)
  expect "uq"; let uq ← listOf do
    let t ← int; let del ← nat; let es ← listOf undelEntry; pure ((t, del), es)
  expect "ui"; let ui ← listOf do
    let v ← nat; let t ← int; let d ← nat; let del ← nat; pure (v, t, d, del)
  expect "snaps"; let snaps ← listOf do
    let d ← nat; let v ← nat; let ht ← nat; let pw ← int; let h ← hist
    pure ((d, v, ht), ({ prevWeight := pw, hist := h } : Snapshot))
  expect "bank"; let bank ← listOf do
    let a ← nat; let d ← nat; let x ← int; pure ((a, d), x)
  expect "supply"; let supply ← listOf do
    let d ← nat; let x ← int; pure (d, x)
  expect "staking"; let bd ← nat; let ub ← int
  let svals ← listOf do
    let v ← nat; let st ← nat; let j ← bool; let tk ← int; let ds ← int; let ms ← int
    pure (v, ({ status := st, jailed := j, tokens := tk, delShares := ds,
                modShares := if ms < 0 then none else some ms } : SVal))
  pure { time := t, height := h, params := { rewardDelay := pd, takeRateInterval := pi, lastTakeRateClaim := pl },
         flag := f, assets := assets, vals := vals, dels := dels, redels := redels, redelQueue := rq,
         redelIndex := ri, undelQueue := uq, undelIndex := ui, snaps := snaps, bank := bank, supply := supply,
         staking := { bondDenom := bd, unbondingTime := ub, vals := svals }, oracle := [] }

def signer : P Signer := do
  let t ← tok
  match t with
  | "auth" => pure .authority
  | "other" => pure .other
  | "bad" => pure .malformed
  | _ => throw s!"bad signer {t}"

def fields : P AllianceFields := do
  let d ← optNat
  let dv ← bool
  let w ← optDec; let mn ← optDec; let mx ← optDec; let tr ← optDec; let cr ← optDec; let ci ← int
  pure { denom := d, denomValid := dv, weight := w, wmin := mn, wmax := mx, takeRate := tr, changeRate := cr, changeIntv := ci }

/-- `O <kind> args… W <withdrawals>` -/
def op : P (XOp × List (ValId × Coins)) := do
  expect "O"
  let k ← tok
  if k = "reimport" then
    expect "W"
    let wd ← listOf do
      let v ← nat; let cs ← coins; pure (v, cs)
    return (XOp.reimport, wd)
  let o ← match k with
    | "delegate" => do let a ← nat; let v ← nat; let d ← nat; let x ← int; pure (Op.delegate a v d x)
    | "undelegate" => do let a ← nat; let v ← nat; let d ← nat; let x ← int; pure (Op.undelegate a v d x)
    | "redelegate" => do let a ← nat; let s ← nat; let t ← nat; let d ← nat; let x ← int; pure (Op.redelegate a s t d x)
    | "claim" => do let a ← nat; let v ← nat; let d ← optNat; pure (Op.claim a v d)
    | "create" => do let s ← signer; let f ← fields; pure (Op.createAlliance s f)
    | "update" => do let s ← signer; let f ← fields; pure (Op.updateAlliance s f)
    | "delete" => do let s ← signer; let d ← optNat; pure (Op.deleteAlliance s d)
    | "params" => do
        let s ← signer; let pd ← int; let pi ← int; let pl ← int
        pure (Op.updateParams s { rewardDelay := pd, takeRateInterval := pi, lastTakeRateClaim := pl })
    | "slash" => do let v ← nat; let f ← int; pure (Op.slash v f)
    | "endblock" => pure Op.endBlock
    | "env" => pure Op.env
    | _ => throw s!"unknown op {k}"
  expect "W"
  let wd ← listOf do
    let v ← nat; let cs ← coins; pure (v, cs)
  pure (XOp.op o, wd)

def runP {α} (p : P α) (line : String) : Except String α :=
  match p ((line.splitOn " ").filter (· ≠ "")) with
  | .ok (a, _) => .ok a
  | .error e => .error e

/-! ### canonical rendering, one string per comparable component -/

def rInt (i : Int) : String := toString i
def rList {α} (f : α → String) (l : List α) : String :=
  toString l.length ++ l.foldl (fun s x => s ++ " " ++ f x) ""
def rHist (h : List RewardHistory) : String :=
  "H " ++ rList (fun r => s!"{r.denom} {match r.alliance with | some a => (a : Int) | none => -1} {r.index}") h
def rDecCoins (c : DecCoins) : String := rList (fun (p : Denom × Dec) => s!"{p.1} {p.2}") c

def rAsset (a : Asset) : String :=
  s!"{a.denom} {a.weight} {a.wmin} {a.wmax} {a.takeRate} {a.totalTokens} {a.totalValShares} {a.startTime} {a.changeRate} {a.changeIntv} {a.lastChange} {if a.isInit then 1 else 0}"

def rRedel (r : Redel) : String := s!"{r.del} {r.src} {r.dst} {r.denom} {r.amount}"
def rUndel (u : Undel) : String := s!"{u.del} {u.val} {u.denom} {u.amount}"

/-- the comparable components of a state, as (name, canonical text) -/
def components (w : World) : List (String × String) :=
  [ ("clock", s!"{w.time} {w.height}"),
    ("params", s!"{w.params.rewardDelay} {w.params.takeRateInterval} {w.params.lastTakeRateClaim}"),
    ("flag", if w.flag then "1" else "0"),
    ("assets", rList (fun (p : Denom × Asset) => rAsset p.2) w.assets),
    ("vals", rList (fun (p : ValId × ValInfo) =>
        s!"{p.1} {rHist p.2.hist} D {rDecCoins p.2.totalDelShares} V {rDecCoins p.2.valShares}") w.vals),
    ("dels", rList (fun (p : DelKey × Delegation) =>
        s!"{p.2.del} {p.2.val} {p.2.denom} {p.2.shares} {p.2.lastClaimHeight} {rHist p.2.hist}") w.dels),
    ("redels", rList (fun (p : RedelKey × Redel) =>
        s!"{p.1.1} {p.1.2.1} {p.1.2.2.1} {p.1.2.2.2} {rRedel p.2}") w.redels),
    ("rq", rList (fun (p : Time × List Redel) => s!"{p.1} {rList rRedel p.2}") w.redelQueue),
    ("ri", rList (fun (k : RedelIdxKey) => s!"{k.1} {k.2.1} {k.2.2.1} {k.2.2.2.1} {k.2.2.2.2}") w.redelIndex),
    ("uq", rList (fun (p : UndelKey × List Undel) => s!"{p.1.1} {p.1.2} {rList rUndel p.2}") w.undelQueue),
    ("ui", rList (fun (k : UndelIdxKey) => s!"{k.1} {k.2.1} {k.2.2.1} {k.2.2.2}") w.undelIndex),
    ("snaps", rList (fun (p : SnapKey × Snapshot) =>
        s!"{p.1.1} {p.1.2.1} {p.1.2.2} {p.2.prevWeight} {rHist p.2.hist}") w.snaps),
    ("bank", rList (fun (p : (Acct × Denom) × Int) => s!"{p.1.1} {p.1.2} {p.2}") (w.bank.filter (·.2 ≠ 0))),
    ("supply", rList (fun (p : Denom × Int) => s!"{p.1} {p.2}") (w.supply.filter (·.2 ≠ 0))),
    ("staking", s!"{w.staking.bondDenom} {w.staking.unbondingTime} " ++
        rList (fun (p : ValId × SVal) =>
          s!"{p.1} {p.2.status} {if p.2.jailed then 1 else 0} {p.2.tokens} {p.2.delShares} {match p.2.modShares with | some s => s | none => -1}")
          w.staking.vals) ]

/-! ### query lines:  `Q <kind> <args…> | <sorted rows joined by ';'>` -/

def rRows (rows : List String) : String :=
  if rows.isEmpty then "-" else ";".intercalate (rows.mergeSort (fun a b => decide (a ≤ b)))

def rUnbondingRows (rows : List UnbondingRow) : String :=
  rRows (rows.map fun r => s!"{r.1} {r.2.1} {r.2.2.1} {r.2.2.2}")

def rRedelRows (rows : List RedelRow) : String :=
  rRows (rows.map fun r => s!"{r.1} {r.2.1} {r.2.2.1} {r.2.2.2}")

def rDelRows (r : Except Err (List DelegationRow)) : String :=
  match r with
  | .ok rows => rRows (rows.map fun r => s!"{r.1} {r.2.1} {r.2.2.1} {r.2.2.2}")
  | .error (.err _) => "err"
  | .error (.panic _) => "panic"

/-- the model's answer to a query line (the part before " | "), or `none` when the line is not understood -/
def answerQuery (w : World) (q : List String) : Option String :=
  match q with
  | ["unb", del, d, v] =>
    match del.toNat?, d.toNat?, v.toNat? with
    | some del, some d, some v => some (rUnbondingRows (qUnbondings w d del v))
    | _, _, _ => none
  | ["unbdd", del, d] =>
    match del.toNat?, d.toNat? with
    | some del, some d => some (rUnbondingRows (qUnbondingsByDenomAndDelegator w d del))
    | _, _ => none
  | ["unbd", del] =>
    match del.toNat? with
    | some del => some (rUnbondingRows (qUnbondingsByDelegator w del))
    | none => none
  | ["red", del, d] =>
    match del.toNat?, d.toNat? with
    | some del, some d => some (rRedelRows (qRedelegations w d del))
    | _, _ => none
  | ["redd", del] =>
    match del.toNat? with
    | some del => some (rRedelRows (qRedelegationsByDelegator w del))
    | none => none
  | ["del", del, v, d] =>
    match del.toNat?, v.toNat?, d.toNat? with
    | some del, some v, some d =>
      some (match qDelegation w del v d with
        | .ok (s, b) => s!"{s} {b}"
        | .error (.err _) => "err"
        | .error (.panic _) => "panic")
    | _, _, _ => none
  | ["dels", del] =>
    match del.toNat? with
    | some del => some (rDelRows (qDelegationsOf w del))
    | none => none
  | ["delsv", del, v] =>
    match del.toNat?, v.toNat? with
    | some del, some v => some (rDelRows (qDelegationsOfVal w del v))
    | _, _ => none
  | ["alldels"] =>
    some (match qAllDelegations w with
      | .ok rows => rRows (rows.map fun r => s!"{r.1} {r.2.1} {r.2.2.1} {r.2.2.2.1} {r.2.2.2.2}")
      | .error (.err _) => "err"
      | .error (.panic _) => "panic")
  | ["bdel", del, v, d] =>
    match del.toNat?, v.toNat?, d.toNat? with
    | some del, some v, some d =>
      some (match bDelegation w del v d with
        | .ok b => s!"{b}"
        | .error (.err _) => "err"
        | .error (.panic _) => "panic")
    | _, _, _ => none
  | ["supplyof", d] =>
    match d.toNat? with
    | some d => some s!"{qSupplyOf w d}"
    | none => none
  | ["totalsupply"] => some (rRows ((qTotalSupply w).map fun p => s!"{p.1} {p.2}"))
  | _ => none

def rResult : Except Err Unit → String
  | .ok _ => "ok"
  | .error (.err c) => "err " ++ c
  | .error (.panic c) => "panic " ++ c

end Trace
end Alliance
