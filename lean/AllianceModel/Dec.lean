/-
  Dec.lean — bit-exact model of cosmossdk.io/math v1.2.0 `LegacyDec` (18-digit fixed point over big.Int)
  and the handful of `Int` operations x/alliance uses.  A `Dec` is the raw scaled integer `d.i`.
  Overflow panics (315-bit LegacyDec / 256-bit Int) are NOT modelled (see DESIGN §8).
  Core Lean only: this file is linked into the `alliance-driver` executable.
-/
namespace Alliance

/-- raw scaled integer of a LegacyDec: value = raw / 10^18 -/
abbrev Dec := Int

namespace Dec

/-- 10^18 (`precisionReuse`) -/
abbrev P : Int := 1000000000000000000
/-- 5·10^17 (`fivePrecision`) -/
abbrev H : Int := 500000000000000000
/-- 10^36 (`squaredPrecisionReuse`) -/
abbrev P2 : Int := 1000000000000000000000000000000000000

def zero : Dec := 0
def one : Dec := P
/-- `types.Rounder` = 0.01 -/
def rounder : Dec := 10000000000000000

def ofInt (n : Int) : Dec := n * P

/-- `chopPrecisionAndRound` on a non-negative magnitude: banker's rounding to even. -/
def chopRoundNonneg (a : Int) : Int :=
  let q := a / P
  let r := a % P
  if r < H then q
  else if r > H then q + 1
  else if q % 2 = 0 then q else q + 1

/-- `chopPrecisionAndRound`: sign removed, rounded, sign restored. -/
def chopRound (x : Int) : Int :=
  if x < 0 then - chopRoundNonneg (-x) else chopRoundNonneg x

def add (a b : Dec) : Dec := a + b
def sub (a b : Dec) : Dec := a - b
def neg (a : Dec) : Dec := -a
def abs (a : Dec) : Dec := if a < 0 then -a else a

/-- `LegacyDec.Mul` -/
def mul (a b : Dec) : Dec := chopRound (a * b)

/-- `LegacyDec.MulInt` (exact) -/
def mulInt (a : Dec) (n : Int) : Dec := a * n

/-- `LegacyDec.Quo`: multiply by 10^36, big.Int.Quo (truncated toward zero), banker's chop.
    Go panics on a zero divisor; callers must test `b = 0` first (see `quo?`). -/
def quo (a b : Dec) : Dec := chopRound ((a * P2).tdiv b)

/-- `LegacyDec.QuoTruncate`: multiply by 10^36, truncated division, truncated chop. -/
def quoTruncate (a b : Dec) : Dec := ((a * P2).tdiv b).tdiv P

/-- `LegacyDec.QuoInt`: big.Int.Quo, truncated toward zero. -/
def quoInt (a : Dec) (n : Int) : Dec := a.tdiv n

/-- `LegacyDec.TruncateInt` (toward zero) -/
def truncateInt (a : Dec) : Int := a.tdiv P

/-- `LegacyDec.TruncateDec` -/
def truncateDec (a : Dec) : Dec := (a.tdiv P) * P

/-- The square-and-multiply loop of `PowerMut`, with rounding at every multiplication.
    `fuel` bounds the loop (64 suffices for a uint64 exponent). -/
def powerLoop : Nat → Dec → Dec → Nat → Dec × Dec
  | 0, d, tmp, _ => (d, tmp)
  | fuel+1, d, tmp, i =>
    if i > 1 then
      let tmp' := if i % 2 ≠ 0 then mul tmp d else tmp
      powerLoop fuel (mul d d) tmp' (i / 2)
    else (d, tmp)

/-- `LegacyDec.Power` -/
def power (d : Dec) (n : Nat) : Dec :=
  if n = 0 then one
  else
    let (d', tmp) := powerLoop 64 d one n
    mul d' tmp

/-- `LegacyDec` panics ("Int overflow") when a result needs more than 315 bits -/
def overflows (x : Int) : Bool := decide (x.natAbs ≥ 2 ^ 315)

/-- `Mul` with the overflow panic made explicit (`none` = Go panics) -/
def mulChk (a b : Dec) : Option Dec :=
  let r := mul a b
  if overflows r then none else some r

/-- `PowerMut` with the overflow panic of every intermediate `MulMut` made explicit -/
def powerLoopChk : Nat → Dec → Dec → Nat → Option (Dec × Dec)
  | 0, d, tmp, _ => some (d, tmp)
  | fuel+1, d, tmp, i =>
    if i > 1 then
      match (if i % 2 ≠ 0 then mulChk tmp d else some tmp), mulChk d d with
      | some tmp', some d' => powerLoopChk fuel d' tmp' (i / 2)
      | _, _ => none
    else some (d, tmp)

def powerChk (d : Dec) (n : Nat) : Option Dec :=
  if n = 0 then some one
  else match powerLoopChk 64 d one n with
    | some (d', tmp) => mulChk d' tmp
    | none => none

/-- decimal rendering identical to `LegacyDec.String()` : sign, integer part, '.', 18 digits -/
def toString (a : Dec) : String :=
  let m := a.natAbs
  let ip := m / 1000000000000000000
  let fp := m % 1000000000000000000
  let fs := Nat.repr fp
  let pad := String.ofList (List.replicate (18 - fs.length) '0')
  (if a < 0 then "-" else "") ++ Nat.repr ip ++ "." ++ pad ++ fs

end Dec
end Alliance
