/-
  Keeper.lean — x/alliance keeper functions, one total function per Go function, same order of
  reads, writes, guards and error/panic sites (x/alliance/keeper/{delegation,reward,slash,unbonding,asset,
  validator,params}.go and x/alliance/types/{asset,validator}.go at the pinned commit).
  Go aliasing is explicit: functions that mutate a caller's `AllianceValidator` through its embedded
  pointer take and return an `AVal`.
-/
import AllianceModel.Monad
namespace Alliance
open Dec

def liftE {α} : Except Err α → M α
  | .ok a => pure a
  | .error e => fun w => (.error e, w)

/-! ## x/alliance/types/asset.go, validator.go -/

/-- `ConvertNewTokenToShares`; `Quo` panics on a zero divisor -/
def convertNewTokenToShares (totalTokens totalShares : Dec) (newTokens : Int) : Except Err Dec :=
  if totalShares = 0 then .ok (ofInt newTokens)
  else if totalTokens = 0 then .error (.panic "div_zero")
  else .ok (mulInt (quo totalShares totalTokens) newTokens)

/-- `ConvertNewShareToDecToken` -/
def convertNewShareToDecToken (totalTokens totalShares shares : Dec) : Dec :=
  if totalShares = 0 then totalTokens else mul (quo shares totalShares) totalTokens

/-- in-memory `types.AllianceValidator`: a snapshot of the staking validator plus the (aliased) info -/
structure AVal where
  id : ValId
  sval : SVal
  info : ValInfo
deriving Repr, Inhabited

def valSharesWithDenom (info : ValInfo) (d : Denom) : Dec := DecCoins.amountOf info.valShares d
def totalDelSharesWithDenom (info : ValInfo) (d : Denom) : Dec := DecCoins.amountOf info.totalDelShares d

/-- `AllianceValidator.TotalTokensWithAsset` -/
def totalTokensWithAsset (info : ValInfo) (a : Asset) : Dec :=
  convertNewShareToDecToken (ofInt a.totalTokens) a.totalValShares (valSharesWithDenom info a.denom)

/-- `sdk.NewCoin` panics on a negative amount -/
def newCoinAmt (x : Int) : Except Err Int := if x < 0 then .error (.panic "neg_coin") else .ok x

/-- `GetDelegationTokensWithShares` / `GetDelegationTokens`: ⌊value + 0.01⌋ -/
def delegationTokensWithShares (shares : Dec) (info : ValInfo) (a : Asset) : Except Err Int :=
  let valTokens := totalTokensWithAsset info a
  let tds := totalDelSharesWithDenom info a.denom
  let delTokens := convertNewShareToDecToken valTokens tds shares
  newCoinAmt (truncateInt (delTokens + rounder))

/-- `GetDelegationSharesFromTokens`: 1:1 while the validator has less than one whole delegator share -/
def delegationSharesFromTokens (info : ValInfo) (a : Asset) (token : Int) : Except Err Dec :=
  let valTokens := totalTokensWithAsset info a
  let tds := totalDelSharesWithDenom info a.denom
  if truncateInt tds = 0 then .ok (ofInt token)
  else convertNewTokenToShares valTokens tds token

/-- `GetValidatorShares` -/
def validatorShares (a : Asset) (token : Int) : Except Err Dec :=
  convertNewTokenToShares (ofInt a.totalTokens) a.totalValShares token

/-- `sdk.NewDecCoins(sdk.NewDecCoinFromDec(d, x))`: panics on a negative amount, drops zero -/
def mkDecCoins (d : Denom) (x : Dec) : Except Err DecCoins :=
  if x < 0 then .error (.panic "neg_dec_coin") else .ok (DecCoins.single d x)

/-- `DecCoins.Sub` -/
def decCoinsSub (a b : DecCoins) : Except Err DecCoins :=
  let (diff, neg) := DecCoins.safeSub a b
  if neg then .error (.panic "neg_coin") else .ok diff

/-- `SubtractDecCoinsWithRounding`: an overdraft below one share clamps to zero, a larger one panics -/
def subtractDecCoinsWithRounding (d1s d2s : DecCoins) : Except Err DecCoins :=
  d2s.foldlM (fun (acc : DecCoins) (c : Denom × Dec) =>
    let a1 := DecCoins.amountOf d1s c.1
    let a2 := c.2
    if a2 > a1 ∧ a2 - a1 < one then decCoinsSub acc (DecCoins.single c.1 a1)
    else decCoinsSub acc (DecCoins.single c.1 a2)) d1s

def rewardsStarted (a : Asset) (now : Time) : Bool := decide (now ≥ a.startTime)

/-! ## store accessors -/

def getAsset (w : World) (d : Denom) : Option Asset := AL.get w.assets d
def setAsset (a : Asset) : M Unit := modifyW fun w => { w with assets := AL.set w.assets a.denom a }
def allAssets (w : World) : List Asset := w.assets.map (·.2)

def getDelegation (w : World) (del : Acct) (v : ValId) (d : Denom) : Option Delegation := AL.get w.dels (del, v, d)
def setDelegation (dl : Delegation) : M Unit :=
  modifyW fun w => { w with dels := AL.set w.dels (dl.del, dl.val, dl.denom) dl }
def deleteDelegation (del : Acct) (v : ValId) (d : Denom) : M Unit :=
  modifyW fun w => { w with dels := AL.erase w.dels (del, v, d) }

def setValInfo (v : ValId) (info : ValInfo) : M Unit :=
  modifyW fun w => { w with vals := AL.set w.vals v info }
def setValidator (val : AVal) : M Unit := setValInfo val.id val.info

def queueRebalance : M Unit := modifyW fun w => { w with flag := true }

/-- `GetAllianceValidator`: creates (and stores) an empty info when none exists -/
def getAllianceValidator (v : ValId) : M AVal := do
  let w ← getW
  match AL.get w.staking.vals v with
  | none => throwE "no_validator"
  | some sv =>
    match AL.get w.vals v with
    | some info => pure { id := v, sval := sv, info := info }
    | none =>
      setValInfo v ValInfo.empty
      pure { id := v, sval := sv, info := ValInfo.empty }

/-! ## reward.go -/

def histFilterByAlliance (h : List RewardHistory) (alliance : Denom) : List RewardHistory :=
  h.filter fun r => r.alliance == some alliance || r.alliance == none

def histFind (h : List RewardHistory) (denom : Denom) (alliance : Option Denom) : Option RewardHistory :=
  h.find? fun r => r.denom == denom && r.alliance == alliance

/-- add `diff` to the first entry matching (denom, alliance), or append a new entry -/
def histBump : List RewardHistory → Denom → Option Denom → Dec → List RewardHistory
  | [], d, al, diff => [{ denom := d, alliance := al, index := diff }]
  | r :: t, d, al, diff =>
    if r.denom == d && r.alliance == al then { r with index := r.index + diff } :: t
    else r :: histBump t d al diff

/-- set the first entry matching (denom, alliance) to `idx` -/
def histSet : List RewardHistory → Denom → Option Denom → Dec → List RewardHistory
  | [], _, _, _ => []
  | r :: t, d, al, idx =>
    if r.denom == d && r.alliance == al then { r with index := idx } :: t
    else r :: histSet t d al idx

def shouldSkipRewardsToAsset (now : Time) (a : Asset) (info : ValInfo) : Bool :=
  a.totalTokens == 0 || !rewardsStarted a now || totalTokensWithAsset info a == 0

/-- `AddAssetsToRewardPool` -/
def addAssetsToRewardPool (val : AVal) (coins : Coins) : M AVal := do
  if val.info.totalDelShares.length = 0 then pure val else do
  let w ← getW
  let alliances := (allAssets w).filter fun a => !shouldSkipRewardsToAsset w.time a val.info
  let srw (a : Asset) : Dec := quoInt (mul a.weight (totalTokensWithAsset val.info a)) a.totalTokens
  let total : Dec := alliances.foldl (fun acc a => acc + srw a) 0
  let hist ← liftE <| alliances.foldlM (fun (h : List RewardHistory) (a : Asset) => do
      if total = 0 then throw (Err.panic "div_zero")
      let nw := quo (srw a) total
      let tt := totalTokensWithAsset val.info a
      pure <| coins.foldl (fun (h : List RewardHistory) (c : Denom × Int) =>
        histBump h c.1 (some a.denom) (quo (mul (ofInt c.2) nw) tt)) h) val.info.hist
  let val' : AVal := { val with info := { val.info with hist := hist } }
  setValidator val'
  sendCoins accModule accPool coins
  pure val'

/-- `ClaimValidatorRewards` -/
def claimValidatorRewards (val : AVal) : M AVal := do
  let w ← getW
  let hasDelegation : Bool := match AL.get w.staking.vals val.id with
    | some sv => sv.modShares.isSome
    | none => false
  if !hasDelegation then pure val else do
  let coins ← withdrawRewards val.id
  if Coins.isZero coins then pure val else addAssetsToRewardPool val coins

/-- `accumulateRewards` -/
def accumulateRewards (latest hist : List RewardHistory) (a : Asset) (weight : Dec)
    (shares : Dec) (info : ValInfo) : Except Err (Coins × List RewardHistory) := do
  let delTokensInt ← delegationTokensWithShares shares info a
  let delTokens := ofInt delTokensInt
  latest.foldlM (fun (acc : Coins × List RewardHistory) (h : RewardHistory) => do
    let (rewards, hist) := acc
    let found := histFind hist h.denom h.alliance
    let prevIdx : Dec := match found with | some r => r.index | none => 0
    if prevIdx ≥ h.index then pure (rewards, hist)
    else
      let claimWeight := if h.alliance == none then mul delTokens weight else delTokens
      let totalClaimable := mul (h.index - prevIdx) claimWeight
      let amt ← newCoinAmt (truncateInt totalClaimable)
      let rewards' := Coins.add rewards (Coins.single h.denom amt)
      let hist' := match found with
        | some _ => histSet hist h.denom h.alliance h.index
        | none => hist ++ [{ denom := h.denom, alliance := h.alliance, index := h.index }]
      pure (rewards', hist')) (([] : Coins), hist)

/-- snapshots of (denom, val) with height ≥ `fromHeight`, ascending -/
def snapshotsFrom (w : World) (d : Denom) (v : ValId) (fromHeight : Nat) : List Snapshot :=
  (w.snaps.filter fun (k, _) => k.1 == d && k.2.1 == v && k.2.2 ≥ fromHeight).map (·.2)

/-- `CalculateDelegationRewards` -/
def calculateDelegationRewards (w : World) (dl : Delegation) (info : ValInfo) (a : Asset) :
    Except Err (Coins × List RewardHistory) := do
  let current := histFilterByAlliance info.hist a.denom
  let delHist := histFilterByAlliance dl.hist a.denom
  let (total, delHist) ← (snapshotsFrom w a.denom dl.val dl.lastClaimHeight).foldlM
    (fun (acc : Coins × List RewardHistory) (s : Snapshot) => do
      let (r, h) ← accumulateRewards s.hist acc.2 a s.prevWeight dl.shares info
      pure (Coins.add acc.1 r, h)) (([] : Coins), delHist)
  let (r, _) ← accumulateRewards current delHist a a.weight dl.shares info
  pure (Coins.add total r, current)

/-- `ClaimDelegationRewards` -/
def claimDelegationRewards (del : Acct) (val : AVal) (d : Denom) : M (Coins × AVal) := do
  let w ← getW
  match getAsset w d with
  | none => throwE "unknown_asset"
  | some a =>
    if !rewardsStarted a w.time then pure ([], val) else
    match getDelegation w del val.id d with
    | none => throwE "no_delegation"
    | some dl =>
      let val ← claimValidatorRewards val
      let w ← getW
      let (coins, newIdx) ← liftE (calculateDelegationRewards w dl val.info a)
      setDelegation { dl with hist := newIdx, lastClaimHeight := w.height }
      sendCoins accPool del coins
      pure (coins, val)

/-! ## delegation.go -/

/-- `updateValidatorShares` (mutates the caller's validator through the embedded pointer) -/
def updateValidatorShares (val : AVal) (delShares valShares : DecCoins) (isAdd : Bool) : M AVal := do
  let info' ← liftE (if isAdd then
      pure { val.info with totalDelShares := DecCoins.add val.info.totalDelShares delShares,
                           valShares := DecCoins.add val.info.valShares valShares }
    else do
      let tds ← subtractDecCoinsWithRounding val.info.totalDelShares delShares
      let vs ← subtractDecCoinsWithRounding val.info.valShares valShares
      pure { val.info with totalDelShares := tds, valShares := vs } : Except Err ValInfo)
  let val' := { val with info := info' }
  setValidator val'
  pure val'

/-- `upsertDelegationWithNewTokens` -/
def upsertDelegationWithNewTokens (del : Acct) (val : AVal) (d : Denom) (amt : Int) (a : Asset) : M Dec := do
  let newShares ← liftE (delegationSharesFromTokens val.info a amt)
  let w ← getW
  match getDelegation w del val.id d with
  | none => setDelegation { del := del, val := val.id, denom := d, shares := newShares,
                            hist := val.info.hist, lastClaimHeight := w.height }
  | some dl => setDelegation { dl with shares := dl.shares + newShares }
  pure newShares

/-- `reduceDelegationShares` -/
def reduceDelegationShares (del : Acct) (v : ValId) (d : Denom) (shares : Dec) (dl : Delegation) : M Unit :=
  let s' := dl.shares - shares
  if s' = 0 then deleteDelegation del v d
  else setDelegation { dl with del := del, val := v, denom := d, shares := s' }

/-- `ValidateDelegatedAmount` -/
def validateDelegatedAmount (dlShares : Dec) (amt : Int) (info : ValInfo) (a : Asset) : Except Err Dec := do
  let s ← delegationSharesFromTokens info a amt
  if Dec.abs (dlShares - s) < rounder then pure dlShares
  else if dlShares < truncateDec s then throw (Err.err "insufficient_shares")
  else if s > dlShares then pure dlShares
  else pure s

/-- `ResetAssetAndValidators` -/
def resetAssetAndValidators (a : Asset) : M Unit := do
  if a.totalTokens ≠ 0 then pure () else do
  modifyW fun w => { w with vals := w.vals.map fun (v, info) =>
    (v, { info with valShares := info.valShares.filter fun c => c.1 ≠ a.denom }) }
  setAsset { a with totalValShares := 0 }

/-- first half of `ClearDustDelegation`: a delegation that is worth no tokens is deleted; returns its shares -/
def clearDustShares (del : Acct) (val : AVal) (a : Asset) : M Dec := do
  let w ← getW
  match getDelegation w del val.id a.denom with
  | none => pure 0
  | some dl => do
    let left ← liftE (delegationTokensWithShares dl.shares val.info a)
    if left = 0 then do
      deleteDelegation dl.del val.id a.denom
      let _ ← liftE (mkDecCoins a.denom dl.shares)
      pure dl.shares
    else pure 0

/-- `ClearDustDelegation` -/
def clearDustDelegation (del : Acct) (val : AVal) (a : Asset) : M Unit := do
  let delSharesToRemove ← clearDustShares del val a
  let valSharesToRemove : Dec :=
    if totalTokensWithAsset val.info a = 0 then valSharesWithDenom val.info a.denom else 0
  let dsc ← liftE (mkDecCoins a.denom delSharesToRemove)
  let vsc ← liftE (mkDecCoins a.denom valSharesToRemove)
  let tds ← liftE (subtractDecCoinsWithRounding val.info.totalDelShares dsc)
  let vs ← liftE (subtractDecCoinsWithRounding val.info.valShares vsc)
  setValidator { val with info := { val.info with totalDelShares := tds, valShares := vs } }
  resetAssetAndValidators a

/-- `queueUndelegation` -/
def queueUndelegation (del : Acct) (v : ValId) (d : Denom) (amt : Int) : M Time := do
  let w ← getW
  let completion := w.time + w.staking.unbondingTime
  let entry : Undel := { del := del, val := v, denom := d, amount := amt }
  let bucket := match AL.get w.undelQueue (completion, del) with
    | none => [entry]
    | some es => es ++ [entry]
  modifyW fun w => { w with
    undelQueue := AL.set w.undelQueue (completion, del) bucket,
    undelIndex := setInsert w.undelIndex (v, completion, d, del) }
  pure completion

/-- `queueRedelegation` -/
def queueRedelegation (r : Redel) (completion : Time) : M Unit :=
  modifyW fun w =>
    let q := match AL.get w.redelQueue completion with
      | none => [r]
      | some es => es ++ [r]
    { w with redelQueue := AL.set w.redelQueue completion q }

/-- `addRedelegation`: the record key has no source validator, so a second source merges into the first record -/
def addRedelegation (del : Acct) (src dst : ValId) (d : Denom) (amt : Int) (completion : Time) : M Unit := do
  let w ← getW
  let key : RedelKey := (del, d, dst, completion)
  let rec' : Redel := match AL.get w.redels key with
    | none => { del := del, src := src, dst := dst, denom := d, amount := amt }
    | some r => { r with amount := r.amount + amt }
  modifyW fun w => { w with
    redels := AL.set w.redels key rec',
    redelIndex := setInsert w.redelIndex (src, completion, d, dst, del) }
  queueRedelegation { del := del, src := src, dst := dst, denom := d, amount := amt } completion

/-- `HasRedelegation`: any record of this delegator and denom INTO `v` -/
def hasRedelegation (w : World) (del : Acct) (v : ValId) (d : Denom) : Bool :=
  w.redels.any fun (k, _) => k.1 == del && k.2.1 == d && k.2.2.1 == v

/-- settle a validator before stake arrives on it: an existing position claims (which settles the validator),
    otherwise the validator's pending rewards are indexed first (`Delegate` l.43-55; `Redelegate` after the fix) -/
def settleBeforeDeposit (del : Acct) (val : AVal) (d : Denom) : M AVal := do
  let w ← getW
  match getDelegation w del val.id d with
  | some _ => do
    let (_, v) ← claimDelegationRewards del val d
    pure v
  | none => claimValidatorRewards val

/-- `Keeper.Delegate` -/
def delegate (del : Acct) (val : AVal) (d : Denom) (amt : Int) : M Unit := do
  let w ← getW
  match getAsset w d with
  | none => throwE "notfound_asset"
  | some a =>
    sendCoins del accModule (Coins.single d amt)
    let val ← settleBeforeDeposit del val d
    let newDelShares ← upsertDelegationWithNewTokens del val d amt a
    let newValShares ← liftE (validatorShares a amt)
    setAsset { a with totalTokens := a.totalTokens + amt, totalValShares := a.totalValShares + newValShares }
    let dsc ← liftE (mkDecCoins d newDelShares)
    let vsc ← liftE (mkDecCoins d newValShares)
    let _ ← updateValidatorShares val dsc vsc true
    queueRebalance

/-- `Keeper.Undelegate` -/
def undelegate (del : Acct) (val : AVal) (d : Denom) (amt : Int) : M Unit := do
  let w ← getW
  match getAsset w d with
  | none => throwE "notfound_asset"
  | some a =>
    guardE ((getDelegation w del val.id d).isNone) "no_delegation"
    let (_, val) ← claimDelegationRewards del val d
    let w ← getW
    let dl : Delegation := (getDelegation w del val.id d).getD default
    let sharesToUndelegate ← liftE (validateDelegatedAmount dl.shares amt val.info a)
    let coinsToUndelegate ← liftE (delegationTokensWithShares sharesToUndelegate val.info a)
    guardE (amt > coinsToUndelegate) "insufficient_tokens"
    let valSharesToRemove ← liftE (validatorShares a amt)
    let a' : Asset := { a with totalTokens := a.totalTokens - amt,
                               totalValShares := a.totalValShares - valSharesToRemove }
    setAsset a'
    reduceDelegationShares del val.id d sharesToUndelegate dl
    let dsc ← liftE (mkDecCoins d sharesToUndelegate)
    let vsc ← liftE (mkDecCoins d valSharesToRemove)
    let val ← updateValidatorShares val dsc vsc false
    clearDustDelegation del val a'
    let _ ← queueUndelegation del val.id d amt
    queueRebalance

/-- `Keeper.Redelegate` -/
def redelegate (del : Acct) (src dst : AVal) (d : Denom) (amt : Int) : M Unit := do
  guardE (src.id = dst.id) "same_validator"
  let w ← getW
  match getAsset w d with
  | none => throwE "notfound_asset"
  | some a =>
    guardE ((getDelegation w del src.id d).isNone) "no_delegation"
    let (_, src) ← claimDelegationRewards del src d
    let w ← getW
    let srcDl : Delegation := (getDelegation w del src.id d).getD default
    let dst ← settleBeforeDeposit del dst d
    let sharesToRemove ← liftE (validateDelegatedAmount srcDl.shares amt src.info a)
    let coinsToRedelegate ← liftE (delegationTokensWithShares sharesToRemove src.info a)
    guardE (amt > coinsToRedelegate) "insufficient_tokens"
    let w ← getW
    guardE (hasRedelegation w del src.id d) "transitive"
    let completion := w.time + w.staking.unbondingTime
    let changedValShares ← liftE (validatorShares a amt)
    reduceDelegationShares del src.id d sharesToRemove srcDl
    let dsc ← liftE (mkDecCoins d sharesToRemove)
    let vsc ← liftE (mkDecCoins d changedValShares)
    let src ← updateValidatorShares src dsc vsc false
    clearDustDelegation del src a
    let newDelShares ← upsertDelegationWithNewTokens del dst d amt a
    let dsc' ← liftE (mkDecCoins d newDelShares)
    let _ ← updateValidatorShares dst dsc' vsc true
    addRedelegation del src.id dst.id d amt completion
    queueRebalance

/-- `CompleteRedelegations`: queue keys strictly before the block time -/
def completeRedelegations : M Unit :=
  modifyW fun w =>
    let matured := w.redelQueue.filter fun (t, _) => t < w.time
    let w' := matured.foldl (fun (w : World) (q : Time × List Redel) =>
      q.2.foldl (fun (w : World) (r : Redel) =>
        { w with redels := AL.erase w.redels (r.del, r.denom, r.dst, q.1),
                 redelIndex := w.redelIndex.erase (r.src, q.1, r.denom, r.dst, r.del) }) w) w
    { w' with redelQueue := w'.redelQueue.filter fun (t, _) => ¬ (t < w.time) }

/-! ## unbonding.go -/

/-- the buckets an end-of-block at the current block time pays out: completion STRICTLY before the block time
    (the end-exclusive range scan `[prefix, key(blockTime))` of `IterateUndelegationsByCompletionTime`) -/
def maturedBuckets (w : World) : List (UndelKey × List Undel) := w.undelQueue.filter fun (k, _) => k.1 < w.time

/-- pay one entry to its delegator and delete its per-validator index key -/
def payEntry (completion : Time) (e : Undel) : M Unit := do
  sendCoins accModule e.del (Coins.single e.denom e.amount)
  modifyW fun w => { w with undelIndex := w.undelIndex.erase (e.val, completion, e.denom, e.del) }

/-- pay every entry of a bucket, then delete the bucket -/
def payBucket (b : UndelKey × List Undel) : M Unit := do
  forEachM (payEntry b.1.1) b.2
  modifyW fun w => { w with undelQueue := AL.erase w.undelQueue b.1 }

/-- `CompleteUnbondings` -/
def completeUnbondings : M Unit := do
  let w ← getW
  forEachM payBucket (maturedBuckets w)
  let w ← getW
  let bal := bankBalance w accModule w.staking.bondDenom
  if bal ≠ 0 then burnCoin accModule w.staking.bondDenom bal else pure ()

/-! ## slash.go -/

/-- the share amount `slashRedelegations` takes from a destination position: `ValidateDelegatedAmount`, capped at the
    position's shares when that reports insufficient shares (repair 87751cb) -/
def cappedShares (dlShares : Dec) (tokens : Int) (info : ValInfo) (a : Asset) : Except Err Dec :=
  match validateDelegatedAmount dlShares tokens info a with
  | .ok s => .ok s
  | .error (.err "insufficient_shares") => .ok dlShares
  | .error e => .error e

/-- `slashRedelegations` -/
def slashRedelegations (v : ValId) (fraction : Dec) : M Unit := do
  let w ← getW
  let idx := w.redelIndex.filter fun k => k.1 == v
  forEachM (fun (k : RedelIdxKey) => do
    let w ← getW
    let (_, completion, d, dst, del) := k
    if completion < w.time then pure () else
    match AL.get w.redels (del, d, dst, completion) with
    | none => throwE "other"
    | some r =>
      let dstVal ← getAllianceValidator r.dst
      -- a destination position that is gone is skipped (checked before any reward is claimed)
      if (getDelegation w r.del r.dst r.denom).isNone then pure () else do
      let (_, dstVal) ← claimDelegationRewards r.del dstVal r.denom
      let w ← getW
      match getDelegation w r.del r.dst r.denom with
      | none => pure ()
      | some dl =>
        match getAsset w r.denom with
        | none => pure ()
        | some a =>
          let tokensToSlash := truncateInt (mulInt fraction r.amount)
          -- capped at what the position still holds
          let sharesToSlash ← liftE (cappedShares dl.shares tokensToSlash dstVal.info a)
          let sc ← liftE (mkDecCoins a.denom sharesToSlash)
          let tds ← liftE (decCoinsSub dstVal.info.totalDelShares sc)
          setValidator { dstVal with info := { dstVal.info with totalDelShares := tds } }
          setDelegation { dl with shares := dl.shares - sharesToSlash }) idx

/-- the amount removed from one unbonding entry when validator `v` is slashed through the index key of denom `d`:
    ⌊f·balance⌋ for entries of that validator and denom, nothing otherwise -/
def slashEntryCut (v : ValId) (d : Denom) (fraction : Dec) (e : Undel) : Int :=
  if e.val == v && e.denom == d then truncateInt (mulInt fraction e.amount) else 0

def slashBucket (v : ValId) (d : Denom) (fraction : Dec) (bucket : List Undel) : List Undel :=
  bucket.map fun e => { e with amount := e.amount - slashEntryCut v d fraction e }

/-- `slashUndelegations`: per index key (validator, completion, denom, delegator) the bucket is loaded and the
    entries of that validator and denom are slashed; the slashed amount goes to the fee collector. -/
def slashUndelegations (v : ValId) (fraction : Dec) : M Unit := do
  let w ← getW
  let idx := w.undelIndex.filter fun k => k.1 == v
  forEachM (fun (k : UndelIdxKey) => do
    let w ← getW
    let (_, completion, d, del) := k
    if completion < w.time then pure () else do
    let bucket := (AL.get w.undelQueue (completion, del)).getD []
    forEachM (fun (e : Undel) =>
      if e.val == v && e.denom == d then sendCoins accModule accFee (Coins.single e.denom (slashEntryCut v d fraction e))
      else pure ()) bucket
    modifyW fun w => { w with undelQueue := AL.set w.undelQueue (completion, del) (slashBucket v d fraction bucket) }) idx

/-- `SlashValidator` -/
def slashValidator (v : ValId) (fraction : Dec) : M Unit := do
  guardE (fraction ≤ 0 ∨ fraction > one) "invalid_fraction"
  let val ← getAllianceValidator v
  let slashed ← val.info.valShares.foldlM (fun (acc : DecCoins) (share : Denom × Dec) => do
    let toSlash := mul share.2 fraction
    let after ← liftE (mkDecCoins share.1 (share.2 - toSlash))
    let w ← getW
    match getAsset w share.1 with
    | none => throwE "unknown_asset"
    | some a =>
      setAsset { a with totalValShares := a.totalValShares - toSlash }
      pure (DecCoins.add acc after)) ([] : DecCoins)
  setValidator { val with info := { val.info with valShares := slashed } }
  slashRedelegations v fraction
  slashUndelegations v fraction

/-- `Hooks.BeforeValidatorSlashed` -/
def beforeValidatorSlashed (v : ValId) (fraction : Dec) : M Unit := do
  slashValidator v fraction
  queueRebalance

/-- `Hooks.AfterValidatorRemoved` -/
def afterValidatorRemoved (v : ValId) : M Unit := do
  modifyW fun w => { w with vals := AL.erase w.vals v }
  queueRebalance

end Alliance
