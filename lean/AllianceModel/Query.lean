/-
  Query.lean — x/alliance/keeper/grpc_query.go and the keeper helpers behind it (`GetUnbondings`,
  `GetUnbondingsByDenomAndDelegator`, `GetUnbondingsByDelegator`, the two redelegation queries, `AllianceDelegation`),
  as pure functions of the state. They follow the Go code's access path (index keys → queue bucket → entry filter),
  not the specification; `AllianceProps/C20.lean` relates them to the filter specification.
-/
import AllianceModel.EndBlock
namespace Alliance
open Dec

/-- one reported unbonding: (validator, completion, denom, amount) -/
abbrev UnbondingRow := ValId × Time × Denom × Int
/-- one reported redelegation: (source, destination, completion, amount) -/
abbrev RedelRow := ValId × ValId × Time × Int

def bucketAt (w : World) (t : Time) (del : Acct) : List Undel := (AL.get w.undelQueue (t, del)).getD []

/-- the rows one per-validator index key contributes: the entries of ITS validator and denom in the bucket it points at -/
def rowsOfIndexKey (w : World) (del : Acct) (d : Denom) (k : UndelIdxKey) : List UnbondingRow :=
  ((bucketAt w k.2.1 del).filter fun e => e.val == k.1 && e.denom == d).map fun e => (e.val, k.2.1, e.denom, e.amount)

/-- `GetUnbondings(denom, delegator, validator)`: prefix scan of the validator's index keys with the
    (denom, delegator) suffix -/
def qUnbondings (w : World) (d : Denom) (del : Acct) (v : ValId) : List UnbondingRow :=
  (w.undelIndex.filter fun k => k.1 == v && k.2.2.1 == d && k.2.2.2 == del).flatMap (rowsOfIndexKey w del d)

/-- `GetUnbondingsByDenomAndDelegator`: scan of ALL index keys with the (denom, delegator) suffix -/
def qUnbondingsByDenomAndDelegator (w : World) (d : Denom) (del : Acct) : List UnbondingRow :=
  (w.undelIndex.filter fun k => k.2.2.1 == d && k.2.2.2 == del).flatMap (rowsOfIndexKey w del d)

/-- `GetUnbondingsByDelegator`: the previous query for every WHITELISTED asset (unbondings of a deleted alliance are
    not reached) -/
def qUnbondingsByDelegator (w : World) (del : Acct) : List UnbondingRow :=
  (allAssets w).flatMap fun a => qUnbondingsByDenomAndDelegator w a.denom del

/-- `AllianceRedelegations(denom, delegator)`: prefix scan of the redelegation records (delegator | denom | …) -/
def qRedelegations (w : World) (d : Denom) (del : Acct) : List RedelRow :=
  (w.redels.filter fun p => p.1.1 == del && p.1.2.1 == d).map fun p => (p.2.src, p.2.dst, p.1.2.2.2, p.2.amount)

/-- `AllianceRedelegationsByDelegator` -/
def qRedelegationsByDelegator (w : World) (del : Acct) : List RedelRow :=
  (w.redels.filter fun p => p.1.1 == del).map fun p => (p.2.src, p.2.dst, p.1.2.2.2, p.2.amount)

/-- `AllianceDelegation(delegator, validator, denom)`: (shares, balance); a missing delegation is reported as zero -/
def qDelegation (w : World) (del : Acct) (v : ValId) (d : Denom) : Except Err (Dec × Int) :=
  match AL.get w.staking.vals v with
  | none => .error (.err "no_validator")
  | some _ =>
    let info := (AL.get w.vals v).getD ValInfo.empty
    match getAsset w d with
    | none => .error (.err "unknown_asset")
    | some a =>
      match getDelegation w del v d with
      | none => .ok (0, 0)
      | some dl =>
        match delegationTokensWithShares dl.shares info a with
        | .ok b => .ok (dl.shares, b)
        | .error e => .error e

/-- one reported delegation: (validator, denom, shares, balance) -/
abbrev DelegationRow := ValId × Denom × Dec × Int

/-- the row of one stored delegation, as the three list queries compute it: the asset must still be whitelisted,
    the validator must exist in x/staking, the balance is `GetDelegationTokens` -/
def delegationRow (w : World) (dl : Delegation) : Except Err DelegationRow :=
  match getAsset w dl.denom with
  | none => .error (.err "unknown_asset")
  | some a =>
    match AL.get w.staking.vals dl.val with
    | none => .error (.err "no_validator")
    | some _ =>
      let info := (AL.get w.vals dl.val).getD ValInfo.empty
      match delegationTokensWithShares dl.shares info a with
      | .ok b => .ok (dl.val, dl.denom, dl.shares, b)
      | .error e => .error e

/-- `AlliancesDelegation(delegator)`: prefix scan of the delegator's records; one failing record fails the query -/
def qDelegationsOf (w : World) (del : Acct) : Except Err (List DelegationRow) :=
  (w.dels.filter fun p => p.1.1 == del).mapM fun p => delegationRow w p.2

/-- `AlliancesDelegationByValidator(delegator, validator)` -/
def qDelegationsOfVal (w : World) (del : Acct) (v : ValId) : Except Err (List DelegationRow) :=
  match AL.get w.staking.vals v with
  | none => .error (.err "no_validator")
  | some _ => (w.dels.filter fun p => p.1.1 == del && p.1.2.1 == v).mapM fun p => delegationRow w p.2

/-- `AllAlliancesDelegations` -/
def qAllDelegations (w : World) : Except Err (List (Acct × DelegationRow)) :=
  w.dels.mapM fun p => (delegationRow w p.2).map fun r => (p.2.del, r)

/-- contract binding `GetDelegation`: the balance only; a MISSING delegation is an error here (the gRPC query reports
    zero), the validator is looked up after the asset -/
def bDelegation (w : World) (del : Acct) (v : ValId) (d : Denom) : Except Err Int :=
  match getDelegation w del v d with
  | none => .error (.err "no_delegation")
  | some dl =>
    match getAsset w d with
    | none => .error (.err "unknown_asset")
    | some a =>
      match AL.get w.staking.vals v with
      | none => .error (.err "no_validator")
      | some _ =>
        let info := (AL.get w.vals v).getD ValInfo.empty
        delegationTokensWithShares dl.shares info a

/-! ## custom/bank/keeper: supply queries report the staking-denom supply net of the alliance-bonded amount -/

/-- `Query/SupplyOf` -/
def qSupplyOf (w : World) (d : Denom) : Int :=
  if d = w.staking.bondDenom then supplyOf w d - allianceBondedAmount w else supplyOf w d

/-- `Query/TotalSupply`: the bond-denom row is reduced when it is positive; zero rows are not listed -/
def qTotalSupply (w : World) : List (Denom × Int) :=
  let bond := w.staking.bondDenom
  let rows := w.supply.filter (fun p => p.2 ≠ 0)
  let rows := if supplyOf w bond > 0 then rows.map (fun p => if p.1 = bond then (p.1, p.2 - allianceBondedAmount w) else p) else rows
  rows.filter (fun p => p.2 ≠ 0)

end Alliance
