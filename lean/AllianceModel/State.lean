/-
  State.lean — the module store, the bank ledger and the staking view, as plain structures.
  Identifiers (denoms, validators, accounts) are naturals assigned by the harness in the order of the
  real key bytes (equal-length addresses and denoms), so store iteration order = key order here.
-/
import AllianceModel.Dec
import AllianceModel.AList
namespace Alliance

abbrev Denom := Nat
abbrev ValId := Nat
abbrev Acct := Nat
abbrev Time := Int      -- nanoseconds since the Unix epoch
abbrev Dur := Int       -- nanoseconds

/-- Go's zero `time.Time{}` (0001-01-01T00:00:00Z) in Unix nanoseconds -/
def zeroTime : Time := -62135596800000000000

/-- reserved account ids (users are ≥ 10) -/
def accModule : Acct := 0      -- "alliance"
def accPool : Acct := 1        -- "alliance_rewards"
def accFee : Acct := 2         -- fee collector
def accBonded : Acct := 3      -- bonded_tokens_pool
def accNotBonded : Acct := 4   -- not_bonded_tokens_pool
def accDistr : Acct := 5       -- distribution

/-- sdk.DecCoins: sorted by denom, no zero entries -/
abbrev DecCoins := List (Denom × Dec)
/-- sdk.Coins: sorted by denom, no zero entries -/
abbrev Coins := List (Denom × Int)

structure RewardHistory where
  denom : Denom
  /-- `none` is the legacy untagged history (`Alliance == ""`) -/
  alliance : Option Denom
  index : Dec
deriving DecidableEq, Repr, Inhabited

structure Asset where
  denom : Denom
  weight : Dec
  wmin : Dec
  wmax : Dec
  takeRate : Dec
  totalTokens : Int
  totalValShares : Dec
  startTime : Time
  changeRate : Dec
  changeIntv : Dur
  lastChange : Time
  isInit : Bool
deriving DecidableEq, Repr, Inhabited

structure ValInfo where
  hist : List RewardHistory
  totalDelShares : DecCoins
  valShares : DecCoins
deriving DecidableEq, Repr, Inhabited

def ValInfo.empty : ValInfo := { hist := [], totalDelShares := [], valShares := [] }

structure Delegation where
  del : Acct
  val : ValId
  denom : Denom
  shares : Dec
  hist : List RewardHistory
  lastClaimHeight : Nat
deriving DecidableEq, Repr, Inhabited

structure Redel where
  del : Acct
  src : ValId
  dst : ValId
  denom : Denom
  amount : Int
deriving DecidableEq, Repr, Inhabited

structure Undel where
  del : Acct
  val : ValId
  denom : Denom
  amount : Int
deriving DecidableEq, Repr, Inhabited

structure Snapshot where
  prevWeight : Dec
  hist : List RewardHistory
deriving DecidableEq, Repr, Inhabited

structure Params where
  rewardDelay : Dur
  takeRateInterval : Dur
  lastTakeRateClaim : Time
deriving DecidableEq, Repr, Inhabited

/-- x/staking validator as far as alliance reads it. status: 1 unbonded, 2 unbonding, 3 bonded -/
structure SVal where
  status : Nat
  jailed : Bool
  tokens : Int
  delShares : Dec
  /-- the alliance module account's delegation shares on this validator (`none`: no delegation object) -/
  modShares : Option Dec
deriving DecidableEq, Repr, Inhabited

def SVal.isBonded (v : SVal) : Bool := v.status == 3

structure Staking where
  bondDenom : Denom
  unbondingTime : Dur
  vals : List (ValId × SVal)
deriving DecidableEq, Repr, Inhabited

abbrev DelKey := Acct × ValId × Denom
abbrev RedelKey := Acct × Denom × ValId × Time          -- 0x22: delegator | denom | destination | completion
abbrev RedelIdxKey := ValId × Time × Denom × ValId × Acct -- 0x31: source | completion | denom | destination | delegator
abbrev UndelKey := Time × Acct                           -- 0x24: completion | delegator
abbrev UndelIdxKey := ValId × Time × Denom × Acct        -- 0x32: validator | completion | denom | delegator
abbrev SnapKey := Denom × ValId × Nat                    -- 0x14: denom | validator | height

structure World where
  time : Time
  height : Nat
  params : Params
  flag : Bool
  assets : List (Denom × Asset)
  vals : List (ValId × ValInfo)
  dels : List (DelKey × Delegation)
  redels : List (RedelKey × Redel)
  redelQueue : List (Time × List Redel)
  redelIndex : List RedelIdxKey
  undelQueue : List (UndelKey × List Undel)
  undelIndex : List UndelIdxKey
  snaps : List (SnapKey × Snapshot)
  bank : List ((Acct × Denom) × Int)
  supply : List (Denom × Int)
  staking : Staking
  /-- responses of x/distribution `withdrawDelegationRewards` for the module account, in call order -/
  oracle : List (ValId × Coins)
deriving Repr, Inhabited

inductive Err where
  | err (code : String)
  | panic (code : String)
deriving DecidableEq, Repr, Inhabited

end Alliance
