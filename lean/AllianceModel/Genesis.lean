/-
  Genesis.lean — x/alliance/keeper/genesis.go: `ExportGenesis` lists the primary records; `InitGenesis` re-creates
  them and rebuilds the derived stores (per-source redelegation index, time queue, per-validator unbonding index).
  Mirrored as the code is: the rebalance flag is not exported, each redelegation is queued twice on import
  (`addRedelegation` already queues, then `queueRedelegation` again), the per-source index is rebuilt from the
  record's single source (merged-source records lose the other sources' keys), and the bucket's delegator is taken
  from its first entry.
-/
import AllianceModel.Msg
namespace Alliance

structure Genesis where
  params : Params
  assets : List Asset
  valInfos : List (ValId × ValInfo)
  delegations : List Delegation
  redelegations : List (Time × Redel)
  undelegations : List (Time × List Undel)
  snapshots : List (SnapKey × Snapshot)
deriving Repr, Inhabited, DecidableEq

/-- `ExportGenesis` -/
def exportGenesis (w : World) : Genesis :=
  { params := w.params
    assets := allAssets w
    valInfos := w.vals
    delegations := w.dels.map (·.2)
    redelegations := w.redels.map fun (k, r) => (k.2.2.2, r)
    undelegations := w.undelQueue.map fun (k, es) => (k.1, es)
    snapshots := w.snaps }

/-- the module store emptied (bank, staking, clock are not part of the module's genesis) -/
def clearModuleStore (w : World) : World :=
  { w with params := { rewardDelay := 0, takeRateInterval := 0, lastTakeRateClaim := zeroTime }, flag := false,
           assets := [], vals := [], dels := [], redels := [], redelQueue := [], redelIndex := [],
           undelQueue := [], undelIndex := [], snaps := [] }

/-- `InitGenesis` (a validation failure of the params panics) -/
def initGenesis (g : Genesis) : M Unit := do
  (fun w => match setParams g.params w with
    | (.ok u, w') => (.ok u, w')
    | (.error _, w') => (.error (.panic "init_genesis"), w'))
  forEachM setAsset g.assets
  forEachM (fun (p : ValId × ValInfo) => setValInfo p.1 p.2) g.valInfos
  forEachM setDelegation g.delegations
  forEachM (fun (p : Time × Redel) => do
    addRedelegation p.2.del p.2.src p.2.dst p.2.denom p.2.amount p.1
    queueRedelegation { del := p.2.del, src := p.2.src, dst := p.2.dst, denom := p.2.denom, amount := p.2.amount } p.1) g.redelegations
  forEachM (fun (p : Time × List Undel) =>
    match p.2 with
    | [] => pure ()
    | e0 :: _ => do
      modifyW fun w => { w with undelQueue := AL.set w.undelQueue (p.1, e0.del) p.2 }
      forEachM (fun (e : Undel) =>
        modifyW fun w => { w with undelIndex := setInsert w.undelIndex (e.val, p.1, e.denom, e0.del) }) p.2) g.undelegations
  forEachM (fun (p : SnapKey × Snapshot) => modifyW fun w => { w with snaps := AL.set w.snaps p.1 p.2 }) g.snapshots

/-- export, wipe the module store, import -/
def reimport : M Unit := do
  let w ← getW
  setW (clearModuleStore w)
  initGenesis (exportGenesis w)

/-- operations of the driver: the state machine's `step`, plus the genesis round trip -/
inductive XOp where
  | op (o : Op)
  | reimport
deriving Repr, Inhabited

def xstep : XOp → M Unit
  | .op o => step o
  | .reimport => reimport

end Alliance
