/-
  AList.lean — association lists kept in key order (the order the byte keys of the KV store induce).
  `get` returns the first match, `set` replaces in place or inserts before the first greater key,
  so the read-after-write lemmas hold without any sortedness hypothesis (proved in AllianceProofs).
-/
namespace Alliance

/-- lexicographic order on tuples = byte order of the concatenated fixed-width key parts -/
instance instOrdProdLex {α β : Type} [Ord α] [Ord β] : Ord (α × β) := lexOrd

namespace AL

variable {κ : Type} {α : Type}

def get [DecidableEq κ] : List (κ × α) → κ → Option α
  | [], _ => none
  | (k', v) :: t, k => if k = k' then some v else get t k

def contains [DecidableEq κ] (l : List (κ × α)) (k : κ) : Bool := (get l k).isSome

def set [DecidableEq κ] [Ord κ] : List (κ × α) → κ → α → List (κ × α)
  | [], k, v => [(k, v)]
  | (k', v') :: t, k, v =>
    if k = k' then (k, v) :: t
    else if compare k k' = .lt then (k, v) :: (k', v') :: t
    else (k', v') :: set t k v

def erase [DecidableEq κ] : List (κ × α) → κ → List (κ × α)
  | [], _ => []
  | (k', v') :: t, k => if k = k' then t else (k', v') :: erase t k

end AL

/-- insertion into a sorted list of keys (a set): no duplicates added -/
def setInsert {κ : Type} [DecidableEq κ] [Ord κ] : List κ → κ → List κ
  | [], k => [k]
  | k' :: t, k =>
    if k = k' then k' :: t
    else if compare k k' = .lt then k :: k' :: t
    else k' :: setInsert t k

end Alliance
