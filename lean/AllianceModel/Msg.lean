/-
  Msg.lean — the eight MsgServer handlers with their validation order (x/alliance/keeper/msg_server.go),
  the three legacy proposal wrappers (keeper/proposal.go), and the operation type the driver replays.
-/
import AllianceModel.EndBlock
namespace Alliance
open Dec

/-- who signed a governance message -/
inductive Signer where
  | authority          -- the configured authority address
  | other              -- a well-formed address that is not the authority
  | malformed          -- not a bech32 address
deriving DecidableEq, Repr, Inhabited

/-- fields of MsgCreateAlliance / MsgUpdateAlliance; `none` is a nil `LegacyDec` -/
structure AllianceFields where
  denom : Option Denom          -- `none`: empty string
  denomValid : Bool := true     -- `sdk.ValidateDenom`
  weight : Option Dec
  wmin : Option Dec
  wmax : Option Dec
  takeRate : Option Dec
  changeRate : Option Dec
  changeIntv : Dur
deriving Repr, Inhabited

inductive Op where
  | delegate (del : Acct) (val : ValId) (d : Denom) (amt : Int)
  | undelegate (del : Acct) (val : ValId) (d : Denom) (amt : Int)
  | redelegate (del : Acct) (src dst : ValId) (d : Denom) (amt : Int)
  | claim (del : Acct) (val : ValId) (d : Option Denom)
  | createAlliance (s : Signer) (f : AllianceFields)
  | updateAlliance (s : Signer) (f : AllianceFields)
  | deleteAlliance (s : Signer) (d : Option Denom)
  | updateParams (s : Signer) (p : Params)
  | slash (val : ValId) (fraction : Dec)
  | endBlock
  | hookDelegationModified
  | hookValidatorBonded
  | hookValidatorBeginUnbonding
  | hookDelegationRemoved
  | hookValidatorRemoved (val : ValId)
  | env                       -- a step of the environment (native staking, time, allocation): nothing predicted
deriving Repr, Inhabited

/-! ## msg_server.go -/

def msgDelegate (del : Acct) (v : ValId) (d : Denom) (amt : Int) : M Unit := do
  guardE (¬ (amt > 0)) "invalid_amount"
  let val ← getAllianceValidator v
  delegate del val d amt

def msgRedelegate (del : Acct) (src dst : ValId) (d : Denom) (amt : Int) : M Unit := do
  guardE (amt ≤ 0) "invalid_amount"
  let s ← getAllianceValidator src
  let t ← getAllianceValidator dst
  redelegate del s t d amt

def msgUndelegate (del : Acct) (v : ValId) (d : Denom) (amt : Int) : M Unit := do
  guardE (amt ≤ 0) "invalid_amount"
  let val ← getAllianceValidator v
  undelegate del val d amt

def msgClaim (del : Acct) (v : ValId) (d : Option Denom) : M Unit := do
  match d with
  | none => throwE "empty_denom"
  | some d =>
    let val ← getAllianceValidator v
    let _ ← claimDelegationRewards del val d
    pure ()

def msgUpdateParams (s : Signer) (p : Params) : M Unit := do
  guardE (s = .malformed) "invalid_authority"
  guardE (p.rewardDelay < 0) "invalid_duration"
  guardE (p.takeRateInterval ≤ 0) "invalid_interval"
  guardE (s ≠ .authority) "unauthorized"
  setParams p

def msgCreateAlliance (s : Signer) (f : AllianceFields) : M Unit := do
  guardE (s = .malformed) "invalid_authority"
  let denom ← requireSome f.denom "empty_denom"
  guardE (f.denomValid = false) "invalid_denom"
  let weight ← requireSome f.weight "invalid_weight"
  guardE (weight < 0) "invalid_weight"
  let wmin ← requireSome f.wmin "invalid_range"
  let wmax ← requireSome f.wmax "invalid_range"
  guardE (wmin < 0 ∨ wmax < 0) "invalid_range"
  guardE (wmin > wmax) "range_min_gt_max"
  guardE (weight < wmin ∨ weight > wmax) "weight_out_of_range"
  let takeRate ← requireSome f.takeRate "invalid_take_rate"
  guardE (takeRate < 0 ∨ takeRate ≥ one) "invalid_take_rate"
  let changeRate ← requireSomeP f.changeRate
  guardE (changeRate ≤ 0) "invalid_change_rate"
  guardE (f.changeIntv < 0) "invalid_change_interval"
  guardE (s ≠ .authority) "unauthorized"
  let w ← getW
  guardE ((getAsset w denom).isSome) "already_exists"
  let start := w.time + w.params.rewardDelay
  setAsset { denom := denom, weight := weight, wmin := wmin, wmax := wmax, takeRate := takeRate,
             totalTokens := 0, totalValShares := 0, startTime := start, changeRate := changeRate,
             changeIntv := f.changeIntv, lastChange := start, isInit := false }

def msgUpdateAlliance (s : Signer) (f : AllianceFields) : M Unit := do
  guardE (s = .malformed) "invalid_authority"
  let denom ← requireSome f.denom "empty_denom"
  let weight ← requireSome f.weight "invalid_weight"
  guardE (weight < 0) "invalid_weight"
  let takeRate ← requireSome f.takeRate "invalid_take_rate"
  guardE (takeRate < 0 ∨ takeRate ≥ one) "invalid_take_rate"
  let changeRate ← requireSomeP f.changeRate
  guardE (changeRate ≤ 0) "invalid_change_rate"
  guardE (f.changeIntv < 0) "invalid_change_interval"
  guardE (s ≠ .authority) "unauthorized"
  let w ← getW
  let asset ← requireSome (getAsset w denom) "unknown_asset"
  -- the range is not nil-checked: `Min.GT(w) || Max.LT(w)` short-circuits, each operand panics only when it is
  -- evaluated on a nil Dec
  let wmin ← requireSomeP f.wmin
  guardE (wmin > weight) "weight_out_of_bound"
  let wmax ← requireSomeP f.wmax
  guardE (wmax < weight) "weight_out_of_bound"
  updateAllianceAsset { asset with wmin := wmin, wmax := wmax, weight := weight, takeRate := takeRate,
                                   changeRate := changeRate, changeIntv := f.changeIntv }

def msgDeleteAlliance (s : Signer) (d : Option Denom) : M Unit := do
  guardE (s = .malformed) "invalid_authority"
  let denom ← requireSome d "empty_denom"
  guardE (s ≠ .authority) "unauthorized"
  let w ← getW
  let asset ← requireSome (getAsset w denom) "unknown_asset"
  guardE (asset.totalTokens > 0) "active_delegations"
  modifyW fun w => { w with assets := AL.erase w.assets denom }

/-- one operation of the state machine. Messages are transactions (rolled back on failure);
    hooks and end-of-block keep whatever they wrote before failing. -/
def step (op : Op) : M Unit :=
  match op with
  | .delegate del v d amt => asTx (msgDelegate del v d amt)
  | .undelegate del v d amt => asTx (msgUndelegate del v d amt)
  | .redelegate del s t d amt => asTx (msgRedelegate del s t d amt)
  | .claim del v d => asTx (msgClaim del v d)
  | .createAlliance s f => asTx (msgCreateAlliance s f)
  | .updateAlliance s f => asTx (msgUpdateAlliance s f)
  | .deleteAlliance s d => asTx (msgDeleteAlliance s d)
  | .updateParams s p => asTx (msgUpdateParams s p)
  | .slash v f => beforeValidatorSlashed v f
  | .endBlock => endBlocker
  | .hookDelegationModified => queueRebalance
  | .hookValidatorBonded => queueRebalance
  | .hookValidatorBeginUnbonding => queueRebalance
  | .hookDelegationRemoved => queueRebalance
  | .hookValidatorRemoved v => afterValidatorRemoved v
  | .env => pure ()

/-- run a whole history from a state; failed operations leave their (possibly partial) state and the run continues -/
def run (w : World) (ops : List Op) : World :=
  ops.foldl (fun w op => (step op w).2) w

end Alliance
