/-
  Msg.lean — the eight MsgServer handlers with their validation order (x/alliance/keeper/msg_server.go),
  the three legacy proposal wrappers (keeper/proposal.go), and the operation type the driver replays.
-/
import AllianceModel.EndBlock
namespace Alliance
open Dec

/-- who signed a governance message -/
inductive Signer where
  | authority          -- the configured authority address
  | other              -- a well-formed address that is not the authority
  | malformed          -- not a bech32 address
deriving DecidableEq, Repr, Inhabited

/-- fields of MsgCreateAlliance / MsgUpdateAlliance; `none` is a nil `LegacyDec` -/
structure AllianceFields where
  denom : Option Denom          -- `none`: empty string
  denomValid : Bool := true     -- `sdk.ValidateDenom`
  weight : Option Dec
  wmin : Option Dec
  wmax : Option Dec
  takeRate : Option Dec
  changeRate : Option Dec
  changeIntv : Dur
deriving Repr, Inhabited

inductive Op where
  | delegate (del : Acct) (val : ValId) (d : Denom) (amt : Int)
  | undelegate (del : Acct) (val : ValId) (d : Denom) (amt : Int)
  | redelegate (del : Acct) (src dst : ValId) (d : Denom) (amt : Int)
  | claim (del : Acct) (val : ValId) (d : Option Denom)
  | createAlliance (s : Signer) (f : AllianceFields)
  | updateAlliance (s : Signer) (f : AllianceFields)
  | deleteAlliance (s : Signer) (d : Option Denom)
  | updateParams (s : Signer) (p : Params)
  | slash (val : ValId) (fraction : Dec)
  | endBlock
  | hookDelegationModified
  | hookValidatorBonded
  | hookValidatorBeginUnbonding
  | hookDelegationRemoved
  | hookValidatorRemoved (val : ValId)
  | env                       -- a step of the environment (native staking, time, allocation): nothing predicted
deriving Repr, Inhabited

/-! ## msg_server.go -/

def msgDelegate (del : Acct) (v : ValId) (d : Denom) (amt : Int) : M Unit := do
  if ¬ (amt > 0) then throwE "invalid_amount"
  let val ← getAllianceValidator v
  delegate del val d amt

def msgRedelegate (del : Acct) (src dst : ValId) (d : Denom) (amt : Int) : M Unit := do
  if amt ≤ 0 then throwE "invalid_amount"
  let s ← getAllianceValidator src
  let t ← getAllianceValidator dst
  redelegate del s t d amt

def msgUndelegate (del : Acct) (v : ValId) (d : Denom) (amt : Int) : M Unit := do
  if amt ≤ 0 then throwE "invalid_amount"
  let val ← getAllianceValidator v
  undelegate del val d amt

def msgClaim (del : Acct) (v : ValId) (d : Option Denom) : M Unit := do
  match d with
  | none => throwE "empty_denom"
  | some d =>
    let val ← getAllianceValidator v
    let _ ← claimDelegationRewards del val d
    pure ()

def msgUpdateParams (s : Signer) (p : Params) : M Unit := do
  if s = .malformed then throwE "invalid_authority"
  if p.rewardDelay < 0 then throwE "invalid_duration"
  if p.takeRateInterval ≤ 0 then throwE "invalid_interval"
  if s ≠ .authority then throwE "unauthorized"
  setParams p

def msgCreateAlliance (s : Signer) (f : AllianceFields) : M Unit := do
  if s = .malformed then throwE "invalid_authority"
  match f.denom with
  | none => throwE "empty_denom"
  | some denom =>
    if !f.denomValid then throwE "invalid_denom"
    match f.weight with
    | none => throwE "invalid_weight"
    | some weight =>
      if weight < 0 then throwE "invalid_weight"
      match f.wmin, f.wmax with
      | some wmin, some wmax =>
        if wmin < 0 ∨ wmax < 0 then throwE "invalid_range"
        if wmin > wmax then throwE "range_min_gt_max"
        if weight < wmin ∨ weight > wmax then throwE "weight_out_of_range"
        match f.takeRate with
        | none => throwE "invalid_take_rate"
        | some takeRate =>
          if takeRate < 0 ∨ takeRate ≥ one then throwE "invalid_take_rate"
          match f.changeRate with
          | none => panicE "nil"
          | some changeRate =>
            if changeRate ≤ 0 then throwE "invalid_change_rate"
            if f.changeIntv < 0 then throwE "invalid_change_interval"
            if s ≠ .authority then throwE "unauthorized"
            let w ← getW
            if (getAsset w denom).isSome then throwE "already_exists"
            let start := w.time + w.params.rewardDelay
            setAsset { denom := denom, weight := weight, wmin := wmin, wmax := wmax, takeRate := takeRate,
                       totalTokens := 0, totalValShares := 0, startTime := start, changeRate := changeRate,
                       changeIntv := f.changeIntv, lastChange := start, isInit := false }
      | _, _ => throwE "invalid_range"

def msgUpdateAlliance (s : Signer) (f : AllianceFields) : M Unit := do
  if s = .malformed then throwE "invalid_authority"
  match f.denom with
  | none => throwE "empty_denom"
  | some denom =>
    match f.weight with
    | none => throwE "invalid_weight"
    | some weight =>
      if weight < 0 then throwE "invalid_weight"
      match f.takeRate with
      | none => throwE "invalid_take_rate"
      | some takeRate =>
        if takeRate < 0 ∨ takeRate ≥ one then throwE "invalid_take_rate"
        match f.changeRate with
        | none => panicE "nil"
        | some changeRate =>
          if changeRate ≤ 0 then throwE "invalid_change_rate"
          if f.changeIntv < 0 then throwE "invalid_change_interval"
          if s ≠ .authority then throwE "unauthorized"
          let w ← getW
          match getAsset w denom with
          | none => throwE "unknown_asset"
          | some asset =>
            -- the range is not nil-checked: comparing against a nil Dec panics
            -- short-circuit `Min.GT(w) || Max.LT(w)`: each operand panics only when it is evaluated on a nil Dec
            match f.wmin with
            | none => panicE "nil"
            | some wmin =>
              if wmin > weight then throwE "weight_out_of_bound"
              match f.wmax with
              | none => panicE "nil"
              | some wmax =>
                if wmax < weight then throwE "weight_out_of_bound"
                updateAllianceAsset { asset with wmin := wmin, wmax := wmax, weight := weight, takeRate := takeRate,
                                                 changeRate := changeRate, changeIntv := f.changeIntv }

def msgDeleteAlliance (s : Signer) (d : Option Denom) : M Unit := do
  if s = .malformed then throwE "invalid_authority"
  match d with
  | none => throwE "empty_denom"
  | some denom =>
    if s ≠ .authority then throwE "unauthorized"
    let w ← getW
    match getAsset w denom with
    | none => throwE "unknown_asset"
    | some asset =>
      if asset.totalTokens > 0 then throwE "active_delegations"
      modifyW fun w => { w with assets := AL.erase w.assets denom }

/-- one operation of the state machine. Messages are transactions (rolled back on failure);
    hooks and end-of-block keep whatever they wrote before failing. -/
def step (op : Op) : M Unit :=
  match op with
  | .delegate del v d amt => asTx (msgDelegate del v d amt)
  | .undelegate del v d amt => asTx (msgUndelegate del v d amt)
  | .redelegate del s t d amt => asTx (msgRedelegate del s t d amt)
  | .claim del v d => asTx (msgClaim del v d)
  | .createAlliance s f => asTx (msgCreateAlliance s f)
  | .updateAlliance s f => asTx (msgUpdateAlliance s f)
  | .deleteAlliance s d => asTx (msgDeleteAlliance s d)
  | .updateParams s p => asTx (msgUpdateParams s p)
  | .slash v f => beforeValidatorSlashed v f
  | .endBlock => endBlocker
  | .hookDelegationModified => queueRebalance
  | .hookValidatorBonded => queueRebalance
  | .hookValidatorBeginUnbonding => queueRebalance
  | .hookDelegationRemoved => queueRebalance
  | .hookValidatorRemoved v => afterValidatorRemoved v
  | .env => pure ()

/-- run a whole history from a state; failed operations leave their (possibly partial) state and the run continues -/
def run (w : World) (ops : List Op) : World :=
  ops.foldl (fun w op => (step op w).2) w

end Alliance
