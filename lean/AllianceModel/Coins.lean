/-
  Coins.lean — sdk.DecCoins / sdk.Coins arithmetic as used by x/alliance (v0.50.4 semantics):
  sorted merge that drops zero entries; `Sub` panics ("negative coin amount") when any entry goes negative.
-/
import AllianceModel.State
namespace Alliance

namespace DecCoins

def amountOf : DecCoins → Denom → Dec
  | [], _ => 0
  | (d', a) :: t, d => if d = d' then a else amountOf t d

def removeZero : DecCoins → DecCoins
  | [] => []
  | (d, a) :: t => if a = 0 then removeZero t else (d, a) :: removeZero t

/-- `safeAdd`: merge of two denom-sorted lists -/
def add : DecCoins → DecCoins → DecCoins
  | [], b => removeZero b
  | a, [] => removeZero a
  | (da, xa) :: ta, (db, xb) :: tb =>
    if da < db then
      if xa = 0 then add ta ((db, xb) :: tb) else (da, xa) :: add ta ((db, xb) :: tb)
    else if da = db then
      if xa + xb = 0 then add ta tb else (da, xa + xb) :: add ta tb
    else
      if xb = 0 then add ((da, xa) :: ta) tb else (db, xb) :: add ((da, xa) :: ta) tb
termination_by a b => a.length + b.length

def negate (c : DecCoins) : DecCoins := c.map (fun (d, a) => (d, -a))

def anyNegative (c : DecCoins) : Bool := c.any (fun (_, a) => a < 0)

/-- `SafeSub` -/
def safeSub (a b : DecCoins) : DecCoins × Bool :=
  let diff := add a (negate b)
  (diff, anyNegative diff)

/-- a one-coin DecCoins as produced by `sdk.NewDecCoins(sdk.NewDecCoinFromDec(d, x))` (zero removed) -/
def single (d : Denom) (x : Dec) : DecCoins := if x = 0 then [] else [(d, x)]

end DecCoins

namespace Coins

def amountOf : Coins → Denom → Int
  | [], _ => 0
  | (d', a) :: t, d => if d = d' then a else amountOf t d

def removeZero : Coins → Coins
  | [] => []
  | (d, a) :: t => if a = 0 then removeZero t else (d, a) :: removeZero t

def add : Coins → Coins → Coins
  | [], b => removeZero b
  | a, [] => removeZero a
  | (da, xa) :: ta, (db, xb) :: tb =>
    if da < db then
      if xa = 0 then add ta ((db, xb) :: tb) else (da, xa) :: add ta ((db, xb) :: tb)
    else if da = db then
      if xa + xb = 0 then add ta tb else (da, xa + xb) :: add ta tb
    else
      if xb = 0 then add ((da, xa) :: ta) tb else (db, xb) :: add ((da, xa) :: ta) tb
termination_by a b => a.length + b.length

def single (d : Denom) (x : Int) : Coins := if x = 0 then [] else [(d, x)]

def isZero (c : Coins) : Bool := c.all (fun (_, a) => a == 0)

end Coins
end Alliance
