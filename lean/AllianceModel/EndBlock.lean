/-
  EndBlock.lean — x/alliance/keeper/asset.go and abci.go: asset initialisation, take-rate deduction,
  reward-weight decay, governance update path, rebalancing against a small model of x/staking v0.50.4
  (`Delegate`, `ValidateUnbondAmount`, `Unbond` for the module account only).
  `EndBlocker` threads ONE in-memory asset list through all hooks, as the Go code does.
-/
import AllianceModel.Keeper
namespace Alliance
open Dec

/-! ## params.go -/

/-- `SetParams`: both durations must be non-negative -/
def setParams (p : Params) : M Unit := do
  guardE (p.rewardDelay < 0) "invalid_duration"
  guardE (p.takeRateInterval < 0) "invalid_duration"
  modifyW fun w => { w with params := p }

def setLastRewardClaimTime (t : Time) : M Unit := do
  let w ← getW
  setParams { w.params with lastTakeRateClaim := t }

/-! ## asset.go -/

/-- an asset becomes initialised at the first end-of-block at or after its reward start time -/
def initStep (now : Time) (a : Asset) : Asset :=
  if a.isInit || !rewardsStarted a now then a else { a with isInit := true }

/-- `InitializeAllianceAssets` -/
def initializeAllianceAssets (assets : List Asset) : M (List Asset) := do
  let w ← getW
  forEachM (fun (a : Asset) =>
    if a.isInit || !rewardsStarted a w.time then pure () else setAsset (initStep w.time a)) assets
  pure (assets.map (initStep w.time))

/-- `SetRewardWeightChangeSnapshot` -/
def setSnapshot (a : Asset) (val : AVal) : M Unit :=
  modifyW fun w =>
    let snap : Snapshot := { prevWeight := a.weight, hist := histFilterByAlliance val.info.hist a.denom }
    { w with snaps := AL.set w.snaps (a.denom, val.id, w.height) snap }

/-- on a weight change every validator's pending rewards are indexed at the OLD weight and a snapshot is taken,
    before the new weight is written; then a rebalance is queued (`UpdateAllianceAsset` l.55-78) -/
def settleAllValidators (asset : Asset) (weightChanged : Bool) (vals : List (ValId × ValInfo)) : M Unit :=
  if weightChanged then do
    forEachM (fun (kv : ValId × ValInfo) => do
      let validator ← getAllianceValidator kv.1
      let validator ← claimValidatorRewards validator
      setSnapshot asset validator) vals
    queueRebalance
  else pure ()

/-- the record `UpdateAllianceAsset` writes: the STORED asset with only the whitelisted fields replaced
    (take rate, weight, change rate/interval, decay clock, range). The decay clock restarts at `now` when decay is
    switched on (rate or interval changes while the old schedule was inactive). -/
def applyUpdate (asset newAsset : Asset) (now : Time) : Asset :=
  let lastChange : Time :=
    if (newAsset.changeRate ≠ asset.changeRate ∨ newAsset.changeIntv ≠ asset.changeIntv) ∧
       (asset.changeRate = one ∨ asset.changeIntv = 0) then now else newAsset.lastChange
  { asset with takeRate := newAsset.takeRate, weight := newAsset.weight,
               changeRate := newAsset.changeRate, changeIntv := newAsset.changeIntv,
               lastChange := lastChange, wmin := newAsset.wmin, wmax := newAsset.wmax }

/-- `UpdateAllianceAsset` -/
def updateAllianceAsset (newAsset : Asset) : M Unit := do
  let w ← getW
  match getAsset w newAsset.denom with
  | none => throwE "unknown_asset"
  | some asset =>
    guardE (newAsset.wmin > newAsset.weight ∨ newAsset.wmax < newAsset.weight) "weight_out_of_bound"
    settleAllValidators asset (decide (newAsset.weight ≠ asset.weight)) w.vals
    let w ← getW
    setAsset (applyUpdate asset newAsset w.time)

/-- an asset is charged the take rate iff it has stake, a positive rate and its rewards have started -/
def takeRateChargeable (now : Time) (a : Asset) : Bool :=
  decide (a.totalTokens > 0) && decide (a.takeRate > 0) && rewardsStarted a now

/-- the new staked total after `n` claim intervals: ⌊T·(1-r)^n⌋ (with `Power` as the rounded loop), or `none` when
    that would be ≤ 1 (the asset is then skipped) -/
def takeRateNewTotal (a : Asset) (n : Nat) : Option Int :=
  let newAmount := mulInt (power (one - a.takeRate) n) a.totalTokens
  if newAmount ≤ one then none else some (truncateInt newAmount)

/-- one asset's deduction step on the in-memory asset -/
def takeRateStep (now : Time) (n : Nat) (a : Asset) : Asset :=
  if takeRateChargeable now a then
    match takeRateNewTotal a n with
    | some t => { a with totalTokens := t }
    | none => a
  else a

/-- the coins moved to the fee collector: per charged asset, old total minus new total -/
def takeRateCoins (now : Time) (n : Nat) (assets : List Asset) : Coins :=
  assets.foldl (fun (cs : Coins) (a : Asset) =>
    Coins.add cs (Coins.single a.denom (a.totalTokens - (takeRateStep now n a).totalTokens))) []

/-- number of whole claim intervals since the clock (Go: `uint64(duration / interval)`) -/
def intervalsSince (now last : Time) (interval : Dur) : Int := (now - last).tdiv interval

/-- `DeductAssetsWithTakeRate`; returns the updated in-memory asset list -/
def deductAssetsWithTakeRate (lastClaim : Time) (assets : List Asset) : M (List Asset) := do
  let w ← getW
  if lastClaim = zeroTime then do
    setLastRewardClaimTime w.time
    pure assets
  else do
    let interval := w.params.takeRateInterval
    guardP (interval = 0) "int_div_zero"
    let n : Int := intervalsSince w.time lastClaim interval
    let coins : Coins := takeRateCoins w.time n.toNat assets
    forEachM (fun (a : Asset) =>
      if takeRateChargeable w.time a ∧ (takeRateNewTotal a n.toNat).isSome then setAsset (takeRateStep w.time n.toNat a)
      else pure ()) assets
    let assets' := assets.map (takeRateStep w.time n.toNat)
    if (assets.filter (takeRateChargeable w.time)).length = 0 then do
      setLastRewardClaimTime w.time
      pure assets'
    else if coins.length ≠ 0 ∧ !Coins.isZero coins then do
      sendCoins accModule accFee coins
      setLastRewardClaimTime (lastClaim + interval * n)
      pure assets'
    else pure assets'

/-- `DeductAssetsHook` -/
def deductAssetsHook (assets : List Asset) : M (List Asset) := do
  let w ← getW
  let last := w.params.lastTakeRateClaim
  if w.time > last + w.params.takeRateInterval then deductAssetsWithTakeRate last assets
  else pure assets

/-- the decayed weight after `n` change intervals: clamp(w · rate^n), `none` when `Power`/`Mul` overflow (Go panics) -/
def decayedWeight (a : Asset) (n : Nat) : Option Dec :=
  match powerChk a.changeRate n with
  | none => none
  | some mult =>
    match mulChk a.weight mult with
    | none => none
    | some w0 =>
      let w1 := if w0 < a.wmin then a.wmin else w0
      some (if w1 > a.wmax then a.wmax else w1)

/-- decay is due when it is configured and a whole interval has elapsed since the decay clock -/
def decayDue (now : Time) (a : Asset) : Bool :=
  !(decide (a.changeIntv = 0) || decide (a.changeRate = one)) && !(decide (a.lastChange + a.changeIntv > now))

/-- `RewardWeightChangeHook` -/
def rewardWeightChangeHook (assets : List Asset) : M (List Asset) := do
  let rec go : List Asset → List Asset → M (List Asset)
    | [], acc => pure acc.reverse
    | a :: rest, acc => do
      let w ← getW
      if !decayDue w.time a then go rest (a :: acc)
      else
        let n : Int := intervalsSince w.time a.lastChange a.changeIntv
        -- `Power` and `Mul` panic ("Int overflow") beyond 315 bits; reachable with a change rate above one
        let some w2 := decayedWeight a n.toNat | panicE "overflow"
        let a' := { a with weight := w2, lastChange := a.lastChange + a.changeIntv * n }
        queueRebalance
        updateAllianceAsset a'
        go rest (a' :: acc)
  go assets []

/-! ## x/staking v0.50.4, module-account delegations only -/

def getSVal (w : World) (v : ValId) : Option SVal := AL.get w.staking.vals v
def setSVal (v : ValId) (sv : SVal) : M Unit :=
  modifyW fun w => { w with staking := { w.staking with vals := AL.set w.staking.vals v sv } }

/-- distribution's `BeforeDelegationSharesModified` hook withdraws the delegator's pending rewards straight
    to its account (here: the module account); nothing is indexed. One oracle response is consumed. -/
def distrHookWithdraw (v : ValId) : M Unit := do
  let _ ← withdrawRewards v
  pure ()

/-- `sdk.DefaultPowerReduction` and the largest consensus power -/
def powerReduction : Int := 1000000
def maxInt64 : Int := 9223372036854775807

/-- `stakingKeeper.Delegate(module, amt, Unbonded, snapshot, subtractAccount = true)` -/
def stakingDelegate (v : ValId) (snap : SVal) (amt : Int) : M Unit := do
  guardE (snap.tokens = 0 ∧ snap.delShares > 0) "invalid_ex_rate"
  let w ← getW
  let live := (getSVal w v).getD snap
  (match live.modShares with
    | some _ => distrHookWithdraw v
    | none => pure ())
  let pool := if snap.isBonded then accBonded else accNotBonded
  sendCoins accModule pool (Coins.single w.staking.bondDenom amt)
  let issued : Dec := if snap.delShares = 0 then ofInt amt else quoInt (mulInt snap.delShares amt) snap.tokens
  let w ← getW
  let live := (getSVal w v).getD snap
  -- `AddValidatorTokensAndShares`: the validator is stored, then its power-index key is built, and
  -- `TokensToConsensusPower` panics ("Int64() out of bound") when tokens / 10^6 does not fit an int64;
  -- the delegation object is not written in that case
  if (snap.tokens + amt).tdiv powerReduction > maxInt64 then do
    setSVal v { snap with tokens := snap.tokens + amt, delShares := snap.delShares + issued, modShares := live.modShares }
    panicE "power_overflow"
  else do
  setSVal v { snap with tokens := snap.tokens + amt, delShares := snap.delShares + issued,
                        modShares := some ((live.modShares.getD 0) + issued) }
  -- AfterDelegationModified → alliance hook
  queueRebalance

/-- `stakingKeeper.ValidateUnbondAmount(module, v, amt)` on the live validator -/
def stakingValidateUnbondAmount (v : ValId) (amt : Int) : M Dec := do
  let w ← getW
  match getSVal w v with
  | none => throwE "no_validator"
  | some sv =>
    match sv.modShares with
    | none => throwE "no_delegation"
    | some ds =>
      guardE (sv.tokens = 0) "insufficient_shares"
      let shares := quoInt (mulInt sv.delShares amt) sv.tokens
      let sharesTrunc := quoTruncate (mulInt sv.delShares amt) (ofInt sv.tokens)
      guardE (sharesTrunc > ds) "invalid_shares"
      pure (if shares > ds then ds else shares)

/-- `stakingKeeper.Unbond(module, v, shares)` on the live validator; returns the tokens released -/
def stakingUnbond (v : ValId) (shares : Dec) : M Int := do
  let w ← getW
  match getSVal w v with
  | none => throwE "no_validator"
  | some sv =>
    match sv.modShares with
    | none => throwE "no_delegation"
    | some ds =>
      distrHookWithdraw v
      guardE (ds < shares) "not_enough_shares"
      let ds' := ds - shares
      -- AfterDelegationModified, or BeforeDelegationRemoved when the delegation is emptied: both queue a rebalance
      queueRebalance
      let remaining := sv.delShares - shares
      let issued : Int := if remaining = 0 then sv.tokens
                          else truncateInt (quo (mulInt shares sv.tokens) sv.delShares)
      guardP (sv.tokens - issued < 0) "staking_negative_tokens"
      setSVal v { sv with tokens := sv.tokens - issued, delShares := remaining,
                          modShares := if ds' = 0 then none else some ds' }
      pure issued

/-- `GetAllianceBondedAmount` -/
def allianceBondedAmount (w : World) : Int :=
  truncateInt <| w.staking.vals.foldl (fun (acc : Dec) (kv : ValId × SVal) =>
    match kv.2.modShares with
    | some ds => if kv.2.isBonded then acc + quoTruncate (mulInt ds kv.2.tokens) kv.2.delShares else acc
    | none => acc) 0

/-- `RebalanceBondTokenWeights` -/
def rebalanceBondTokenWeights (assets : List Asset) : M Unit := do
  let w ← getW
  let allianceBonded := allianceBondedAmount w
  let totalBonded := bankBalance w accBonded w.staking.bondDenom
  let native := totalBonded - allianceBonded
  let bondDenom := w.staking.bondDenom
  -- snapshot all validators first
  let snaps ← (w.vals.map (·.1)).foldlM (fun (acc : List AVal) (v : ValId) => do
      let val ← getAllianceValidator v
      pure (acc ++ [val])) ([] : List AVal)
  let unbondedShares : DecCoins := snaps.foldl (fun acc val =>
    if val.sval.isBonded then acc else DecCoins.add acc val.info.valShares) []
  let bonded := snaps.filter (·.sval.isBonded)
  forEachM (fun (validator : AVal) => do
    let w ← getW
    let current : Dec := match (getSVal w validator.id).bind (·.modShares) with
      | some ds => quo (mulInt ds validator.sval.tokens) validator.sval.delShares
      | none => 0
    let expected ← assets.foldlM (fun (acc : Dec) (a : Asset) => do
      if !rewardsStarted a w.time then
        queueRebalance
        pure acc
      else
        let vs := valSharesWithDenom validator.info a.denom
        let expForAsset := mulInt a.weight native
        let bondedVS := a.totalValShares - DecCoins.amountOf unbondedShares a.denom
        if vs > 0 ∧ bondedVS > 0 then pure (acc + mul (quo vs bondedVS) expForAsset) else pure acc) (0 : Dec)
    if expected > current then
      let bondAmt := truncateInt (expected - current)
      if bondAmt = 0 then pure ()
      else do
        mintCoin accModule bondDenom bondAmt
        let validator ← claimValidatorRewards validator
        stakingDelegate validator.id validator.sval bondAmt
    else if expected < current then
      let unbondAmt := truncateInt (current - expected)
      if unbondAmt = 0 then pure ()
      else do
        let shares ← stakingValidateUnbondAmount validator.id unbondAmt
        let _ ← claimValidatorRewards validator
        let tokensToBurn ← stakingUnbond validator.id shares
        burnCoin accBonded bondDenom tokensToBurn
    else pure ()) bonded

/-- `RebalanceHook` -/
def rebalanceHook (assets : List Asset) : M Unit := do
  let w ← getW
  if w.flag then
    modifyW fun w => { w with flag := false }
    rebalanceBondTokenWeights assets

/-- `alliance.EndBlocker` -/
def endBlocker : M Unit := do
  completeRedelegations
  completeUnbondings
  let w ← getW
  let assets := allAssets w
  let assets ← initializeAllianceAssets assets
  let assets ← deductAssetsHook assets
  let assets ← rewardWeightChangeHook assets
  rebalanceHook assets

end Alliance
