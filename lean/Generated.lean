import Generated.Facts
import Generated.Arith
import Generated.Tables
