import Generated.Facts
