import Generated.Facts
import Generated.Arith
