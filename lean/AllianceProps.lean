import AllianceProps.Audit
