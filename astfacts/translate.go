// translate.go — a small Go→Lean translator for the straight-line fixed-point helpers of x/alliance/types
// (asset.go, validator.go): the share/token conversions every value computation of the module goes through.
// The output, lean/Generated/Arith.lean, is regenerated from the CURRENT source on every run of bin/check; the
// hand-written model's functions are proved equal to the regenerated ones (AllianceProps/ArithTie.lean), so a change
// of an operator, an operand, a guard or the order of two roundings in the Go source breaks a proof obligation even
// if no sampled trace happens to exercise it. Anything outside the supported fragment makes the generated file fail
// to compile (reported as a proof break), never a silent pass.
package main

import (
	"fmt"
	"go/ast"
	"bytes"
	"crypto/sha256"
	"encoding/hex"
	"go/parser"
	"go/printer"
	"go/token"
	"os"
	"path/filepath"
	"strings"
)

// the functions translated, in dependency order
var arithTargets = []string{"ConvertNewTokenToShares", "ConvertNewShareToDecToken", "TotalTokensWithAsset",
	"GetDelegationTokensWithShares", "GetDelegationSharesFromTokens", "GetValidatorShares", "ValidateDelegatedAmount",
	"SubtractDecCoinsWithRounding", "RewardsStarted", "GetIndexByAlliance"}

// where each target lives
var arithFiles = []string{"x/alliance/types/asset.go", "x/alliance/types/validator.go", "x/alliance/keeper/delegation.go", "x/alliance/types/params.go"}

// sentinel errors → model error codes
var errCode = map[string]string{"stakingtypes.ErrInsufficientShares": "insufficient_shares"}

// parameters of type sdk.Coin are carried as their amount
var coinParams = map[string]bool{}

// a small type environment for the loop fragment: "DecCoins" (a coin set) or "DecCoin" (one element of it)
var varType = map[string]string{}

// functions with a `for … range` are emitted with `let mut` / `for … in … do`
var mutStyle = false

var leanType = map[string]string{
	"math.LegacyDec": "Dec", "math.Int": "Int", "AllianceAsset": "Asset", "AllianceValidator": "ValInfo",
	"Delegation": "Delegation", "string": "Denom", "sdk.Coin": "Int", "sdk.DecCoins": "DecCoins", "time.Time": "Time", "bool": "Bool", "RewardHistories": "List RewardHistory",
}

var fieldName = map[string]string{
	"Denom": "denom", "TotalTokens": "totalTokens", "TotalValidatorShares": "totalValShares", "Shares": "shares",
	"RewardStartTime": "startTime",
}

type trErr struct{ msg string }

func fail(format string, a ...interface{}) { panic(trErr{fmt.Sprintf(format, a...)}) }

func typeStr(e ast.Expr) string {
	switch t := e.(type) {
	case *ast.Ident:
		return t.Name
	case *ast.SelectorExpr:
		if typeStr(t.X) == "types" {
			return t.Sel.Name
		}
		return typeStr(t.X) + "." + t.Sel.Name
	case *ast.StarExpr:
		return typeStr(t.X)
	}
	fail("unsupported type expression %T", e)
	return ""
}

func mapType(e ast.Expr) string {
	s := typeStr(e)
	if l, ok := leanType[s]; ok {
		return l
	}
	fail("unsupported parameter/result type %s", s)
	return ""
}

func isTarget(n string) bool {
	for _, t := range arithTargets {
		if t == n {
			return true
		}
	}
	return false
}

func args(xs []ast.Expr) string {
	var out []string
	for _, x := range xs {
		out = append(out, expr(x))
	}
	return strings.Join(out, " ")
}

// expr translates a Go expression into a Lean term usable inside a `do` block of `Except Err`
func expr(e ast.Expr) string {
	switch x := e.(type) {
	case *ast.Ident:
		if x.Name == "Rounder" {
			return "GoSem.rounder"
		}
		return x.Name
	case *ast.ParenExpr:
		return "(" + expr(x.X) + ")"
	case *ast.SelectorExpr:
		if id, ok := x.X.(*ast.Ident); ok {
			if id.Name == "types" && x.Sel.Name == "Rounder" {
				return "GoSem.rounder"
			}
			if coinParams[id.Name] && x.Sel.Name == "Amount" {
				return id.Name
			}
			if varType[id.Name] == "DecCoin" {
				switch x.Sel.Name {
				case "Denom":
					return "(" + id.Name + ").1"
				case "Amount":
					return "(" + id.Name + ").2"
				}
			}
		}
		f, ok := fieldName[x.Sel.Name]
		if !ok {
			fail("unsupported field %s", x.Sel.Name)
		}
		return "(" + expr(x.X) + ")." + f
	case *ast.UnaryExpr:
		if x.Op == token.NOT {
			return "(!" + expr(x.X) + ")"
		}
		fail("unsupported unary operator %s", x.Op)
	case *ast.BinaryExpr:
		switch x.Op {
		case token.LAND:
			return "(" + expr(x.X) + " && " + expr(x.Y) + ")"
		case token.LOR:
			return "(" + expr(x.X) + " || " + expr(x.Y) + ")"
		case token.EQL:
			// rh.Alliance == alliance / rh.Alliance == "" on an element of a reward-history list
			if sel, ok := x.X.(*ast.SelectorExpr); ok && sel.Sel.Name == "Alliance" {
				if id, ok := sel.X.(*ast.Ident); ok && varType[id.Name] == "Hist" {
					if lit, ok := x.Y.(*ast.BasicLit); ok && lit.Value == `""` {
						return "(GoSem.allianceNone " + id.Name + ")"
					}
					if y, ok := x.Y.(*ast.Ident); ok {
						return "(GoSem.allianceIs " + id.Name + " " + y.Name + ")"
					}
				}
			}
		}
		fail("unsupported binary operator %s", x.Op)
	case *ast.CallExpr:
		switch f := x.Fun.(type) {
		case *ast.Ident:
			if isTarget(f.Name) {
				return "(← " + f.Name + " " + args(x.Args) + ")"
			}
			fail("call of untranslated function %s", f.Name)
		case *ast.SelectorExpr:
			if pkg, ok := f.X.(*ast.Ident); ok && pkg.Name == "types" && isTarget(f.Sel.Name) {
				return "(← " + f.Sel.Name + " " + args(x.Args) + ")"
			}
			if pkg, ok := f.X.(*ast.Ident); ok && (pkg.Name == "math" || pkg.Name == "sdk") {
				switch pkg.Name + "." + f.Sel.Name {
				case "math.LegacyNewDecFromInt":
					return "(GoSem.decFromInt " + args(x.Args) + ")"
				case "math.ZeroInt":
					return "(0 : Int)"
				case "math.LegacyOneDec":
					return "GoSem.oneDec"
				case "math.LegacyZeroDec":
					return "(0 : Dec)"
				case "sdk.NewDecCoins":
					if len(x.Args) != 1 {
						fail("sdk.NewDecCoins arity")
					}
					if id, ok := x.Args[0].(*ast.Ident); ok {
						if x.Ellipsis.IsValid() && varType[id.Name] == "DecCoins" {
							return "(GoSem.newDecCoins " + id.Name + ")"
						}
						if !x.Ellipsis.IsValid() && varType[id.Name] == "DecCoin" {
							return "(GoSem.singleDecCoin (" + id.Name + ").1 (" + id.Name + ").2)"
						}
					}
					if c, ok := x.Args[0].(*ast.CallExpr); ok {
						if sel, ok := c.Fun.(*ast.SelectorExpr); ok && sel.Sel.Name == "NewDecCoinFromDec" && len(c.Args) == 2 {
							return "(GoSem.singleDecCoin " + expr(c.Args[0]) + " " + expr(c.Args[1]) + ")"
						}
					}
					fail("unsupported argument of sdk.NewDecCoins")
				case "sdk.NewCoin":
					if len(x.Args) != 2 {
						fail("sdk.NewCoin arity")
					}
					// the denom is carried by the caller; the amount is what can panic
					return "(← GoSem.newCoin " + expr(x.Args[0]) + " " + expr(x.Args[1]) + ")"
				}
				fail("unsupported package function %s.%s", pkg.Name, f.Sel.Name)
			}
			recv := expr(f.X)
			switch f.Sel.Name {
			case "IsZero":
				return "(GoSem.isZero " + recv + ")"
			case "Quo":
				return "(← GoSem.quo " + recv + " " + args(x.Args) + ")"
			case "Mul":
				return "(GoSem.mul " + recv + " " + args(x.Args) + ")"
			case "MulInt":
				return "(GoSem.mulInt " + recv + " " + args(x.Args) + ")"
			case "Add":
				return "(GoSem.add " + recv + " " + args(x.Args) + ")"
			case "Sub":
				if id, ok := f.X.(*ast.Ident); ok && varType[id.Name] == "DecCoins" {
					return "(← GoSem.decCoinsSub " + recv + " " + args(x.Args) + ")"
				}
				return "(GoSem.sub " + recv + " " + args(x.Args) + ")"
			case "AmountOf":
				return "(GoSem.amountOf " + recv + " " + args(x.Args) + ")"
			case "TruncateInt":
				return "(GoSem.truncateInt " + recv + ")"
			case "TruncateDec":
				return "(GoSem.truncateDec " + recv + ")"
			case "Abs":
				return "(GoSem.abs " + recv + ")"
			case "LT":
				return "(GoSem.lt " + recv + " " + args(x.Args) + ")"
			case "GT":
				return "(GoSem.gt " + recv + " " + args(x.Args) + ")"
			case "Equal":
				if id, ok := f.X.(*ast.Ident); ok && varType[id.Name] == "Time" {
					return "(GoSem.timeEq " + recv + " " + args(x.Args) + ")"
				}
				return "(GoSem.intEq " + recv + " " + args(x.Args) + ")"
			case "After":
				return "(GoSem.timeAfter " + recv + " " + args(x.Args) + ")"
			case "Before":
				return "(GoSem.timeBefore " + recv + " " + args(x.Args) + ")"
			case "TotalTokensWithAsset":
				return "(← TotalTokensWithAsset " + recv + " " + args(x.Args) + ")"
			case "TotalDelegationSharesWithDenom":
				return "(GoSem.totalDelegationSharesWithDenom " + recv + " " + args(x.Args) + ")"
			case "ValidatorSharesWithDenom":
				return "(GoSem.validatorSharesWithDenom " + recv + " " + args(x.Args) + ")"
			}
			fail("unsupported method %s", f.Sel.Name)
		}
	}
	fail("unsupported expression %T", e)
	return ""
}

func stmts(list []ast.Stmt, ind string) string {
	var b strings.Builder
	for _, s := range list {
		switch x := s.(type) {
		case *ast.ReturnStmt:
			if len(x.Results) == 2 {
				// (value, error): `v, nil` returns v; `_, ErrX` fails with the model's code for ErrX
				if id, ok := x.Results[1].(*ast.Ident); ok && id.Name == "nil" {
					b.WriteString(ind + "return " + expr(x.Results[0]) + "\n")
					continue
				}
				code, ok := errCode[typeStrSafe(x.Results[1])]
				if !ok {
					fail("unsupported error value in return")
				}
				b.WriteString(ind + "throw (Err.err \"" + code + "\")\n")
				continue
			}
			if len(x.Results) != 1 {
				fail("return with %d results", len(x.Results))
			}
			b.WriteString(ind + "return " + expr(x.Results[0]) + "\n")
		case *ast.AssignStmt:
			if len(x.Lhs) != 1 || len(x.Rhs) != 1 {
				fail("multi-assignment")
			}
			id, ok := x.Lhs[0].(*ast.Ident)
			if !ok {
				fail("assignment to a non-identifier")
			}
			if c, ok := x.Rhs[0].(*ast.CallExpr); ok {
				if sel, ok := c.Fun.(*ast.SelectorExpr); ok && sel.Sel.Name == "NewDecCoins" {
					varType[id.Name] = "DecCoins"
				}
				// ris = append(ris, rh) on reward-history lists
				if f, ok := c.Fun.(*ast.Ident); ok && f.Name == "append" && mutStyle && x.Tok == token.ASSIGN && len(c.Args) == 2 {
					a0, ok0 := c.Args[0].(*ast.Ident)
					a1, ok1 := c.Args[1].(*ast.Ident)
					if ok0 && ok1 && a0.Name == id.Name && varType[id.Name] == "Hists" && varType[a1.Name] == "Hist" {
						b.WriteString(ind + id.Name + " := GoSem.appendHist " + id.Name + " " + a1.Name + "\n")
						continue
					}
					fail("unsupported append")
				}
			}
			if mutStyle {
				if x.Tok == token.DEFINE {
					b.WriteString(ind + "let mut " + id.Name + " := " + expr(x.Rhs[0]) + "\n")
				} else {
					b.WriteString(ind + id.Name + " := " + expr(x.Rhs[0]) + "\n")
				}
				continue
			}
			b.WriteString(ind + "let " + id.Name + " := " + expr(x.Rhs[0]) + "\n")
		case *ast.RangeStmt:
			if !mutStyle {
				fail("range statement outside the loop fragment")
			}
			v, ok := x.Value.(*ast.Ident)
			xs, ok2 := x.X.(*ast.Ident)
			if k, isId := x.Key.(*ast.Ident); !ok || !ok2 || !isId || k.Name != "_" || (varType[xs.Name] != "DecCoins" && varType[xs.Name] != "Hists") {
				fail("unsupported range statement")
			}
			if varType[xs.Name] == "Hists" {
				varType[v.Name] = "Hist"
			} else {
				varType[v.Name] = "DecCoin"
			}
			b.WriteString(ind + "for " + v.Name + " in " + xs.Name + " do\n")
			b.WriteString(stmts(x.Body.List, ind+"  "))
		case *ast.IfStmt:
			if mutStyle && x.Init == nil {
				b.WriteString(ind + "if " + expr(x.Cond) + " then\n")
				b.WriteString(stmts(x.Body.List, ind+"  "))
				if x.Else != nil {
					eb, ok := x.Else.(*ast.BlockStmt)
					if !ok {
						fail("else-if")
					}
					b.WriteString(ind + "else\n")
					b.WriteString(stmts(eb.List, ind+"  "))
				}
				continue
			}
			if x.Init != nil || x.Else != nil {
				fail("if with init/else")
			}
			// `if c { v = e }`: a conditional update of a local
			if len(x.Body.List) == 1 {
				if as, ok := x.Body.List[0].(*ast.AssignStmt); ok && as.Tok == token.ASSIGN && len(as.Lhs) == 1 && len(as.Rhs) == 1 {
					if id, ok := as.Lhs[0].(*ast.Ident); ok {
						b.WriteString(ind + "let " + id.Name + " := if " + expr(x.Cond) + " then " + expr(as.Rhs[0]) + " else " + id.Name + "\n")
						continue
					}
				}
			}
			b.WriteString(ind + "if " + expr(x.Cond) + " then\n")
			b.WriteString(stmts(x.Body.List, ind+"  "))
		default:
			fail("unsupported statement %T", s)
		}
	}
	return b.String()
}

func typeStrSafe(e ast.Expr) string {
	defer func() { _ = recover() }()
	return typeStr(e)
}

func translateFunc(fd *ast.FuncDecl) string {
	var params []string
	coinParams = map[string]bool{}
	varType = map[string]string{}
	mutStyle = false
	ast.Inspect(fd.Body, func(n ast.Node) bool {
		if _, ok := n.(*ast.RangeStmt); ok {
			mutStyle = true
		}
		return true
	})
	if fd.Recv != nil {
		for _, f := range fd.Recv.List {
			if typeStr(f.Type) == "Keeper" {
				continue // keeper methods that do not touch the store: the receiver is unused
			}
			for _, n := range f.Names {
				if typeStr(f.Type) == "RewardHistories" {
					varType[n.Name] = "Hists"
				}
				params = append(params, "("+n.Name+" : "+mapType(f.Type)+")")
			}
		}
	}
	for _, f := range fd.Type.Params.List {
		for _, n := range f.Names {
			if typeStr(f.Type) == "sdk.Coin" {
				coinParams[n.Name] = true
			}
			if typeStr(f.Type) == "sdk.DecCoins" {
				varType[n.Name] = "DecCoins"
			}
			if typeStr(f.Type) == "time.Time" {
				varType[n.Name] = "Time"
			}
			params = append(params, "("+n.Name+" : "+mapType(f.Type)+")")
		}
	}
	nres := 0
	if fd.Type.Results != nil {
		for _, f := range fd.Type.Results.List {
			if len(f.Names) == 0 {
				nres++
			} else {
				nres += len(f.Names)
			}
		}
	}
	if nres == 2 {
		if typeStr(fd.Type.Results.List[len(fd.Type.Results.List)-1].Type) != "error" {
			fail("%s: second result must be error", fd.Name.Name)
		}
	} else if nres != 1 {
		fail("%s: one result (or value, error) expected", fd.Name.Name)
	}
	res := mapType(fd.Type.Results.List[0].Type)
	pre := ""
	if nres == 1 && len(fd.Type.Results.List[0].Names) == 1 && typeStr(fd.Type.Results.List[0].Type) == "RewardHistories" {
		// a named slice result is a local that starts empty and is appended to (other named results are always assigned
		// by an explicit `return e` in the translated functions and need no declaration)
		n := fd.Type.Results.List[0].Names[0].Name
		if !mutStyle {
			fail("%s: named slice result outside the loop fragment", fd.Name.Name)
		}
		varType[n] = "Hists"
		pre = "  let mut " + n + " : " + res + " := GoSem.nilHists\n"
	}
	return fmt.Sprintf("def %s %s : Except Err (%s) := do\n%s%s", fd.Name.Name, strings.Join(params, " "), res, pre, stmts(fd.Body.List, "  "))
}

func translateArith(repo, out string) {
	header := "/- GENERATED by astfacts/translate.go from x/alliance/types/{asset,validator}.go and keeper/delegation.go on every run of bin/check. Do not edit. -/\n" +
		"import AllianceModel.GoSem\nnamespace Alliance\nnamespace Generated\nopen Dec\n\n"
	body := ""
	func() {
		defer func() {
			if r := recover(); r != nil {
				if te, ok := r.(trErr); ok {
					// outside the supported fragment: the generated file must NOT compile
					body = "/-- the translator could not handle the current source: " + strings.ReplaceAll(te.msg, "-/", "") +
						" -/\ntheorem translator_gave_up : (0 : Nat) = 1 := rfl\n"
					return
				}
				panic(r)
			}
		}()
		fset := token.NewFileSet()
		found := map[string]*ast.FuncDecl{}
		for _, fn := range arithFiles {
			f, err := parser.ParseFile(fset, filepath.Join(repo, fn), nil, 0)
			if err != nil {
				fail("parse %s: %v", fn, err)
			}
			for _, d := range f.Decls {
				if fd, ok := d.(*ast.FuncDecl); ok && isTarget(fd.Name.Name) && fd.Body != nil {
					found[fd.Name.Name] = fd
				}
			}
		}
		for _, t := range arithTargets {
			fd, ok := found[t]
			if !ok {
				fail("function %s not found", t)
			}
			body += translateFunc(fd) + "\n"
		}
	}()
	_ = os.WriteFile(out, []byte(header+body+"end Generated\nend Alliance\n"), 0o644)
	// the pinned source-text tables go to a file of their own: a function the translator cannot handle breaks the arithmetic
	// ties only, not the properties that pin guards, hook bodies, the end blocker, keys or genesis code
	tables := "/- GENERATED by astfacts/translate.go from the current /repo source on every run of bin/check. Do not edit. -/\n" +
		"namespace Alliance\nnamespace Generated\n\n"
	_ = os.WriteFile(filepath.Join(filepath.Dir(out), "Tables.lean"), []byte(tables+guardFacts(repo)+skeletonFacts(repo)+keyFacts(repo)+genesisFacts(repo)+"end Generated\nend Alliance\n"), 0o644)
}

// guardFacts: for every method of keeper.MsgServer, the conditions of its top-level validation guards (an `if` whose
// body returns, and whose condition does not test `err`), in source order, as source text. The Lean side pins them
// (`C16.msg_guards_as_modelled`): a changed comparator, constant, operand or order of a guard breaks a `decide`.
func guardFacts(repo string) string {
	fset := token.NewFileSet()
	f, err := parser.ParseFile(fset, filepath.Join(repo, "x/alliance/keeper/msg_server.go"), nil, 0)
	if err != nil {
		return "theorem guard_facts_unreadable : (0 : Nat) = 1 := rfl\n"
	}
	var b strings.Builder
	b.WriteString("/-- validation guards of the message server, per handler, in source order -/\ndef msgGuards : List (String × List String) := [\n")
	first := true
	for _, d := range f.Decls {
		fd, ok := d.(*ast.FuncDecl)
		if !ok || fd.Recv == nil || fd.Body == nil || len(fd.Recv.List) != 1 || typeStrSafe(fd.Recv.List[0].Type) != "MsgServer" {
			continue
		}
		var conds []string
		for _, st := range fd.Body.List {
			is, ok := st.(*ast.IfStmt)
			if !ok || is.Init != nil {
				continue
			}
			returns := false
			for _, bs := range is.Body.List {
				if _, ok := bs.(*ast.ReturnStmt); ok {
					returns = true
				}
			}
			var buf bytes.Buffer
			_ = printer.Fprint(&buf, fset, is.Cond)
			c := buf.String()
			if !returns || strings.Contains(c, "err") {
				continue
			}
			conds = append(conds, c)
		}
		if !first {
			b.WriteString(",\n")
		}
		first = false
		q := make([]string, len(conds))
		for i, x := range conds {
			q[i] = fmt.Sprintf("%q", x)
		}
		fmt.Fprintf(&b, "  (%q, [%s])", fd.Name.Name, strings.Join(q, ", "))
	}
	b.WriteString("\n]\n\n")
	return b.String()
}


// skeletonFacts: the first source line of every top-level statement of the staking hooks (keeper/hooks.go) and of the
// end blocker (abci.go). Pinned on the Lean side (`C08.hook_bodies_as_modelled`, `C17.end_blocker_body_as_modelled`): an
// added early return, a dropped or reordered call in these few short functions breaks an `rfl`.
func skeletonFacts(repo string) string {
	firstLines := func(fset *token.FileSet, body *ast.BlockStmt) string {
		var q []string
		for _, st := range body.List {
			var buf bytes.Buffer
			_ = printer.Fprint(&buf, fset, st)
			line := strings.SplitN(buf.String(), "\n", 2)[0]
			q = append(q, fmt.Sprintf("%q", line))
		}
		return "[" + strings.Join(q, ", ") + "]"
	}
	var b strings.Builder
	fset := token.NewFileSet()
	f, err := parser.ParseFile(fset, filepath.Join(repo, "x/alliance/keeper/hooks.go"), nil, 0)
	if err != nil {
		return "theorem hook_facts_unreadable : (0 : Nat) = 1 := rfl\n"
	}
	b.WriteString("/-- first source line of every top-level statement of each staking hook -/\ndef hookStatements : List (String × List String) := [\n")
	first := true
	for _, d := range f.Decls {
		fd, ok := d.(*ast.FuncDecl)
		if !ok || fd.Recv == nil || fd.Body == nil || len(fd.Recv.List) != 1 || typeStrSafe(fd.Recv.List[0].Type) != "Hooks" {
			continue
		}
		if !first {
			b.WriteString(",\n")
		}
		first = false
		fmt.Fprintf(&b, "  (%q, %s)", fd.Name.Name, firstLines(fset, fd.Body))
	}
	b.WriteString("\n]\n\n")
	f2, err := parser.ParseFile(fset, filepath.Join(repo, "x/alliance/abci.go"), nil, 0)
	if err != nil {
		return b.String() + "theorem abci_facts_unreadable : (0 : Nat) = 1 := rfl\n"
	}
	for _, d := range f2.Decls {
		if fd, ok := d.(*ast.FuncDecl); ok && fd.Name.Name == "EndBlocker" && fd.Body != nil {
			b.WriteString("/-- first source line of every top-level statement of the end blocker -/\n")
			fmt.Fprintf(&b, "def endBlockStatements : List String := %s\n\n", firstLines(fset, fd.Body))
		}
	}
	return b.String()
}


// keyFacts: a fingerprint (SHA-256 of the printed declaration, comments and formatting excluded) of every function of
// x/alliance/types/keys.go — the byte layout of the store keys, on which the model's "store iteration = key order" and the
// index/queue access paths rest. Pinned on the Lean side (`C20.store_key_layout_as_modelled`): any edit of a key builder
// or parser (a dropped length prefix, a slice cut with the wrong length field) breaks an `rfl`.
func keyFacts(repo string) string {
	return fingerprintFacts(repo, "x/alliance/types/keys.go", "keyFunctions",
		"(declaration, fingerprint) for the key prefixes and every function of x/alliance/types/keys.go")
}

// genesisFacts: the same for x/alliance/keeper/genesis.go (`C18.genesis_code_as_modelled`): export and import are the
// persistence format of the module; the model's `exportGenesis` / `initGenesis` were written from exactly this text.
func genesisFacts(repo string) string {
	return fingerprintFacts(repo, "x/alliance/keeper/genesis.go", "genesisFunctions",
		"(declaration, fingerprint) for every function of x/alliance/keeper/genesis.go")
}

func fingerprintFacts(repo, file, defName, doc string) string {
	fset := token.NewFileSet()
	f, err := parser.ParseFile(fset, filepath.Join(repo, file), nil, 0)
	if err != nil {
		return "theorem " + defName + "_unreadable : (0 : Nat) = 1 := rfl\n"
	}
	var b strings.Builder
	b.WriteString("/-- " + doc + " -/\ndef " + defName + " : List (String × String) := [\n")
	first := true
	nblock := 0
	for _, d := range f.Decls {
		name := ""
		switch x := d.(type) {
		case *ast.FuncDecl:
			name = x.Name.Name
		case *ast.GenDecl:
			if x.Tok != token.VAR && x.Tok != token.CONST {
				continue
			}
			nblock++
			name = fmt.Sprintf("<%s block %d>", x.Tok.String(), nblock) // the key prefixes
		default:
			continue
		}
		var buf bytes.Buffer
		_ = printer.Fprint(&buf, fset, d)
		sum := sha256.Sum256(buf.Bytes())
		if !first {
			b.WriteString(",\n")
		}
		first = false
		fmt.Fprintf(&b, "  (%q, %q)", name, hex.EncodeToString(sum[:8]))
	}
	b.WriteString("\n]\n\n")
	return b.String()
}
