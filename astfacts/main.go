// astfacts regenerates lean/Generated/Facts.lean from the CURRENT source of /repo on every run of bin/check:
//   - hazards: every construct in the state-machine packages through which map iteration order, wall-clock time,
//     randomness or goroutine scheduling could reach state or results (C19);
//   - endBlockSteps: the ordered keeper calls of alliance.EndBlocker (C17);
//   - hookQueuesRebalance: for every staking hook of keeper.Hooks, whether its body queues a rebalance (C10);
//   - updateWhitelist: the asset fields assigned in UpdateAllianceAsset / applyUpdate (C16);
//   - allianceHooksRegistered, endBlockerAfterStaking: wiring facts from app/app.go (C08, C10).
// The Lean side proves small `decide` theorems over these tables, so they are proofs about what the source says now.
package main

import (
	"fmt"
	"go/ast"
	"go/parser"
	"go/token"
	"go/types"
	"os"
	"path/filepath"
	"sort"
	"strings"
)

type hazard struct{ file, fn, kind, detail string }

func main() {
	repo, out := os.Args[1], os.Args[2]
	translateArith(repo, filepath.Join(filepath.Dir(out), "Arith.lean"))
	dirs := []string{"x/alliance", "x/alliance/keeper", "x/alliance/types", "x/alliance/bindings", "custom/bank/keeper"}
	var hz []hazard
	fset := token.NewFileSet()
	var endBlock []string
	hooks := map[string]bool{}
	var whitelist []string
	for _, d := range dirs {
		pkgs, err := parser.ParseDir(fset, filepath.Join(repo, d), func(fi os.FileInfo) bool {
			return !strings.HasSuffix(fi.Name(), "_test.go") && !strings.HasSuffix(fi.Name(), ".pb.go") && !strings.HasSuffix(fi.Name(), ".pb.gw.go")
		}, 0)
		if err != nil {
			fmt.Fprintln(os.Stderr, err)
			os.Exit(1)
		}
		for _, pkg := range pkgs {
			// a light-weight type check (imports not resolved) is enough to know which locals are maps
			conf := types.Config{Error: func(error) {}, Importer: nil}
			var files []*ast.File
			var names []string
			for n := range pkg.Files {
				names = append(names, n)
			}
			sort.Strings(names)
			for _, n := range names {
				files = append(files, pkg.Files[n])
			}
			info := &types.Info{Types: map[ast.Expr]types.TypeAndValue{}, Defs: map[*ast.Ident]types.Object{}, Uses: map[*ast.Ident]types.Object{}}
			_, _ = conf.Check(pkg.Name, fset, files, info)
			for i, f := range files {
				rel, _ := filepath.Rel(repo, names[i])
				// syntactic map detection as a fallback: variables declared with map[...] types or make(map...)
				mapVars := map[string]bool{}
				ast.Inspect(f, func(n ast.Node) bool {
					switch x := n.(type) {
					case *ast.AssignStmt:
						for j, r := range x.Rhs {
							if isMapExpr(r) && j < len(x.Lhs) {
								if id, ok := x.Lhs[j].(*ast.Ident); ok {
									mapVars[id.Name] = true
								}
							}
						}
					case *ast.ValueSpec:
						if _, ok := x.Type.(*ast.MapType); ok {
							for _, id := range x.Names {
								mapVars[id.Name] = true
							}
						}
						for j, r := range x.Values {
							if isMapExpr(r) && j < len(x.Names) {
								mapVars[x.Names[j].Name] = true
							}
						}
					case *ast.Field:
						if _, ok := x.Type.(*ast.MapType); ok {
							for _, id := range x.Names {
								mapVars[id.Name] = true
							}
						}
					}
					return true
				})
				for _, decl := range f.Decls {
					fd, ok := decl.(*ast.FuncDecl)
					if !ok || fd.Body == nil {
						continue
					}
					fn := fd.Name.Name
					if fd.Recv != nil && len(fd.Recv.List) > 0 {
						fn = recvName(fd.Recv.List[0].Type) + "." + fn
					}
					ast.Inspect(fd.Body, func(n ast.Node) bool {
						switch x := n.(type) {
						case *ast.RangeStmt:
							isMap := false
							if tv, ok := info.Types[x.X]; ok && tv.Type != nil {
								if _, ok := tv.Type.Underlying().(*types.Map); ok {
									isMap = true
								}
							}
							if id, ok := x.X.(*ast.Ident); ok && mapVars[id.Name] {
								isMap = true
							}
							if isMapExpr(x.X) {
								isMap = true
							}
							if isMap {
								hz = append(hz, hazard{rel, fn, "range-over-map", exprStr(x.X)})
							}
						case *ast.GoStmt:
							hz = append(hz, hazard{rel, fn, "go-statement", ""})
						case *ast.SelectStmt:
							hz = append(hz, hazard{rel, fn, "select", ""})
						case *ast.SelectorExpr:
							if id, ok := x.X.(*ast.Ident); ok {
								if id.Name == "time" && (x.Sel.Name == "Now" || x.Sel.Name == "Since" || x.Sel.Name == "Until") {
									hz = append(hz, hazard{rel, fn, "wall-clock", "time." + x.Sel.Name})
								}
								if id.Name == "rand" {
									hz = append(hz, hazard{rel, fn, "randomness", "rand." + x.Sel.Name})
								}
								if id.Name == "unsafe" {
									hz = append(hz, hazard{rel, fn, "unsafe", "unsafe." + x.Sel.Name})
								}
							}
						case *ast.CallExpr:
							if s, ok := x.Fun.(*ast.SelectorExpr); ok && len(x.Args) > 0 {
								if id, ok := s.X.(*ast.Ident); ok && id.Name == "fmt" {
									if lit, ok := x.Args[0].(*ast.BasicLit); ok && strings.Contains(lit.Value, "%p") {
										hz = append(hz, hazard{rel, fn, "pointer-format", lit.Value})
									}
								}
							}
						}
						return true
					})
					// structural facts
					if d == "x/alliance" && fn == "EndBlocker" {
						ast.Inspect(fd.Body, func(n ast.Node) bool {
							if c, ok := n.(*ast.CallExpr); ok {
								if s, ok := c.Fun.(*ast.SelectorExpr); ok {
									if id, ok := s.X.(*ast.Ident); ok && id.Name == "k" {
										endBlock = append(endBlock, s.Sel.Name)
									}
								}
							}
							return true
						})
					}
					if d == "x/alliance/keeper" && strings.HasPrefix(fn, "Hooks.") {
						q := false
						ast.Inspect(fd.Body, func(n ast.Node) bool {
							if s, ok := n.(*ast.SelectorExpr); ok && (s.Sel.Name == "QueueAssetRebalanceEvent") {
								q = true
							}
							return true
						})
						hooks[strings.TrimPrefix(fn, "Hooks.")] = q
					}
					if d == "x/alliance/keeper" && fn == "Keeper.UpdateAllianceAsset" {
						ast.Inspect(fd.Body, func(n ast.Node) bool {
							if a, ok := n.(*ast.AssignStmt); ok && len(a.Lhs) == 1 {
								if s, ok := a.Lhs[0].(*ast.SelectorExpr); ok {
									if id, ok := s.X.(*ast.Ident); ok && id.Name == "asset" {
										whitelist = append(whitelist, s.Sel.Name)
									}
								}
							}
							return true
						})
					}
				}
			}
		}
	}
	// wiring facts from app/app.go (textual: the file is a long constructor)
	appSrc, _ := os.ReadFile(filepath.Join(repo, "app/app.go"))
	app := string(appSrc)
	hooksRegistered := false
	if i := strings.Index(app, "StakingKeeper.SetHooks("); i >= 0 {
		seg := app[i:]
		if j := strings.Index(seg, ")\n\t)"); j > 0 {
			seg = seg[:j]
		}
		hooksRegistered = strings.Contains(seg, "AllianceKeeper.StakingHooks()")
	}
	afterStaking := false
	if i := strings.Index(app, "SetOrderEndBlockers("); i >= 0 {
		seg := app[i:]
		if j := strings.Index(seg, "\n\t)"); j > 0 {
			seg = seg[:j]
		}
		a := strings.Index(seg, "alliancemoduletypes.ModuleName")
		s := strings.Index(seg, "stakingtypes.ModuleName")
		afterStaking = a > 0 && s > 0 && a > s
	}

	// module account permissions of the alliance module and of the rewards pool (maccPerms): the module mints and burns the
	// virtual staking tokens (rebalancing) and burns whatever staking-denom coins it holds at the end of a block
	macc := func(name string) []string {
		i := strings.Index(app, name+":")
		if i < 0 {
			return []string{"<missing>"}
		}
		seg := app[i+len(name)+1:]
		if j := strings.Index(seg, "\n"); j >= 0 {
			seg = seg[:j]
		}
		seg = strings.TrimSpace(strings.TrimSuffix(strings.TrimSpace(seg), ","))
		if seg == "nil" {
			return []string{}
		}
		seg = strings.Trim(seg, "{}")
		var out []string
		for _, x := range strings.Split(seg, ",") {
			if x = strings.TrimSpace(x); x != "" {
				out = append(out, x)
			}
		}
		sort.Strings(out)
		return out
	}
	modulePerms := macc("alliancemoduletypes.ModuleName")
	poolPerms := macc("alliancemoduletypes.RewardsPoolName")

	sort.Slice(hz, func(i, j int) bool {
		a, b := hz[i], hz[j]
		if a.file != b.file {
			return a.file < b.file
		}
		if a.fn != b.fn {
			return a.fn < b.fn
		}
		if a.kind != b.kind {
			return a.kind < b.kind
		}
		return a.detail < b.detail
	})
	var sb strings.Builder
	sb.WriteString("/- GENERATED by /verif/astfacts from the current /repo source on every run of bin/check. Do not edit. -/\n")
	sb.WriteString("namespace Alliance.Generated\n\n")
	sb.WriteString("/-- (file, function, kind, detail) of every determinism hazard in the state-machine packages -/\n")
	sb.WriteString("def hazards : List (String × String × String × String) := [\n")
	for i, h := range hz {
		sep := ","
		if i == len(hz)-1 {
			sep = ""
		}
		fmt.Fprintf(&sb, "  (%q, %q, %q, %q)%s\n", h.file, h.fn, h.kind, h.detail, sep)
	}
	sb.WriteString("]\n\n")
	sb.WriteString("/-- keeper calls of alliance.EndBlocker, in source order -/\n")
	fmt.Fprintf(&sb, "def endBlockSteps : List String := %s\n\n", leanStrList(endBlock))
	var hn []string
	for k := range hooks {
		hn = append(hn, k)
	}
	sort.Strings(hn)
	sb.WriteString("/-- for every method of keeper.Hooks: does its body queue a rebalance -/\n")
	sb.WriteString("def hookQueuesRebalance : List (String × Bool) := [\n")
	for i, k := range hn {
		sep := ","
		if i == len(hn)-1 {
			sep = ""
		}
		fmt.Fprintf(&sb, "  (%q, %v)%s\n", k, hooks[k], sep)
	}
	sb.WriteString("]\n\n")
	sort.Strings(whitelist)
	sb.WriteString("/-- fields of the stored asset assigned by UpdateAllianceAsset -/\n")
	fmt.Fprintf(&sb, "def updateWhitelist : List String := %s\n\n", leanStrList(whitelist))
	fmt.Fprintf(&sb, "def allianceHooksRegistered : Bool := %v\n", hooksRegistered)
	fmt.Fprintf(&sb, "def endBlockerAfterStaking : Bool := %v\n", afterStaking)
	sb.WriteString("/-- maccPerms of app/app.go for the alliance module account and the rewards pool (sorted) -/\n")
	fmt.Fprintf(&sb, "def allianceModulePerms : List String := %s\n", leanStrList(modulePerms))
	fmt.Fprintf(&sb, "def rewardsPoolPerms : List String := %s\n\n", leanStrList(poolPerms))
	sb.WriteString("end Alliance.Generated\n")
	_ = os.Remove(out)
	if err := os.WriteFile(out, []byte(sb.String()), 0o644); err != nil {
		fmt.Fprintln(os.Stderr, err)
		os.Exit(1)
	}
}

func isMapExpr(e ast.Expr) bool {
	switch x := e.(type) {
	case *ast.CompositeLit:
		_, ok := x.Type.(*ast.MapType)
		return ok
	case *ast.CallExpr:
		if id, ok := x.Fun.(*ast.Ident); ok && id.Name == "make" && len(x.Args) > 0 {
			_, ok := x.Args[0].(*ast.MapType)
			return ok
		}
	}
	return false
}

func recvName(e ast.Expr) string {
	switch x := e.(type) {
	case *ast.StarExpr:
		return recvName(x.X)
	case *ast.Ident:
		return x.Name
	}
	return "?"
}

func exprStr(e ast.Expr) string {
	switch x := e.(type) {
	case *ast.Ident:
		return x.Name
	case *ast.SelectorExpr:
		return exprStr(x.X) + "." + x.Sel.Name
	case *ast.CallExpr:
		return exprStr(x.Fun) + "(…)"
	case *ast.IndexExpr:
		return exprStr(x.X) + "[…]"
	}
	return "expr"
}

func leanStrList(xs []string) string {
	q := make([]string, len(xs))
	for i, x := range xs {
		q[i] = fmt.Sprintf("%q", x)
	}
	return "[" + strings.Join(q, ", ") + "]"
}
