module allianceverif/astfacts

go 1.21
