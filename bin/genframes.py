#!/usr/bin/env python3
"""Authoring-time generator (its output is committed): for a projection π of the state, emit a Lean file with the
frame judgment `Fr m` (π is unchanged by m, on success and on failure), the structural rules, a walker tactic, and a
frame lemma for every keeper function that never writes π."""
import os, sys
L = os.path.join(os.path.dirname(os.path.dirname(os.path.abspath(__file__))), "lean", "AllianceProofs")

FUNCS = [
 ("setBalance", "(a : Acct) (d : Denom) (x : Int)", "setBalance a d x"),
 ("sendCoin", "(s t : Acct) (d : Denom) (x : Int)", "sendCoin s t d x"),
 ("sendCoins", "(s t : Acct) (cs : Coins)", "sendCoins s t cs"),
 ("mintCoin", "(a : Acct) (d : Denom) (x : Int)", "mintCoin a d x"),
 ("burnCoin", "(a : Acct) (d : Denom) (x : Int)", "burnCoin a d x"),
 ("withdrawRewards", "(v : ValId)", "withdrawRewards v"),
 ("setAsset", "(a : Asset)", "setAsset a"),
 ("setDelegation", "(dl : Delegation)", "setDelegation dl"),
 ("deleteDelegation", "(a : Acct) (v : ValId) (d : Denom)", "deleteDelegation a v d"),
 ("setValInfo", "(v : ValId) (i : ValInfo)", "setValInfo v i"),
 ("setValidator", "(v : AVal)", "setValidator v"),
 ("queueRebalance", "", "queueRebalance"),
 ("getAllianceValidator", "(v : ValId)", "getAllianceValidator v"),
 ("addAssetsToRewardPool", "(v : AVal) (cs : Coins)", "addAssetsToRewardPool v cs"),
 ("claimValidatorRewards", "(v : AVal)", "claimValidatorRewards v"),
 ("claimDelegationRewards", "(a : Acct) (v : AVal) (d : Denom)", "claimDelegationRewards a v d"),
 ("settleBeforeDeposit", "(a : Acct) (v : AVal) (d : Denom)", "settleBeforeDeposit a v d"),
 ("updateValidatorShares", "(v : AVal) (a b : DecCoins) (c : Bool)", "updateValidatorShares v a b c"),
 ("upsertDelegationWithNewTokens", "(a : Acct) (v : AVal) (d : Denom) (x : Int) (as : Asset)", "upsertDelegationWithNewTokens a v d x as"),
 ("reduceDelegationShares", "(a : Acct) (v : ValId) (d : Denom) (s : Dec) (dl : Delegation)", "reduceDelegationShares a v d s dl"),
 ("resetAssetAndValidators", "(a : Asset)", "resetAssetAndValidators a"),
 ("clearDustShares", "(a : Acct) (v : AVal) (as : Asset)", "clearDustShares a v as"),
 ("clearDustDelegation", "(a : Acct) (v : AVal) (as : Asset)", "clearDustDelegation a v as"),
 ("queueUndelegation", "(a : Acct) (v : ValId) (d : Denom) (x : Int)", "queueUndelegation a v d x"),
 ("queueRedelegation", "(r : Redel) (t : Time)", "queueRedelegation r t"),
 ("addRedelegation", "(a : Acct) (s t : ValId) (d : Denom) (x : Int) (c : Time)", "addRedelegation a s t d x c"),
 ("delegate", "(a : Acct) (v : AVal) (d : Denom) (x : Int)", "delegate a v d x"),
 ("undelegate", "(a : Acct) (v : AVal) (d : Denom) (x : Int)", "undelegate a v d x"),
 ("redelegate", "(a : Acct) (s t : AVal) (d : Denom) (x : Int)", "redelegate a s t d x"),
 ("completeRedelegations", "", "completeRedelegations"),
 ("payEntry", "(t : Time) (e : Undel)", "payEntry t e"),
 ("payBucket", "(b : UndelKey × List Undel)", "payBucket b"),
 ("completeUnbondings", "", "completeUnbondings"),
 ("slashRedelegations", "(v : ValId) (f : Dec)", "slashRedelegations v f"),
 ("slashUndelegations", "(v : ValId) (f : Dec)", "slashUndelegations v f"),
 ("slashValidator", "(v : ValId) (f : Dec)", "slashValidator v f"),
 ("beforeValidatorSlashed", "(v : ValId) (f : Dec)", "beforeValidatorSlashed v f"),
 ("afterValidatorRemoved", "(v : ValId)", "afterValidatorRemoved v"),
 ("setParams", "(p : Params)", "setParams p"),
 ("setLastRewardClaimTime", "(t : Time)", "setLastRewardClaimTime t"),
 ("initializeAllianceAssets", "(as : List Asset)", "initializeAllianceAssets as"),
 ("setSnapshot", "(a : Asset) (v : AVal)", "setSnapshot a v"),
 ("settleAllValidators", "(a : Asset) (b : Bool) (vs : List (ValId × ValInfo))", "settleAllValidators a b vs"),
 ("updateAllianceAsset", "(a : Asset)", "updateAllianceAsset a"),
 ("deductAssetsWithTakeRate", "(t : Time) (as : List Asset)", "deductAssetsWithTakeRate t as"),
 ("deductAssetsHook", "(as : List Asset)", "deductAssetsHook as"),
 ("rewardWeightChangeHook", "(as : List Asset)", "rewardWeightChangeHook as"),
 ("setSVal", "(v : ValId) (s : SVal)", "setSVal v s"),
 ("distrHookWithdraw", "(v : ValId)", "distrHookWithdraw v"),
 ("stakingDelegate", "(v : ValId) (s : SVal) (x : Int)", "stakingDelegate v s x"),
 ("stakingValidateUnbondAmount", "(v : ValId) (x : Int)", "stakingValidateUnbondAmount v x"),
 ("stakingUnbond", "(v : ValId) (s : Dec)", "stakingUnbond v s"),
 ("rebalanceBondTokenWeights", "(as : List Asset)", "rebalanceBondTokenWeights as"),
 ("rebalanceHook", "(as : List Asset)", "rebalanceHook as"),
 ("endBlocker", "", "endBlocker"),
 ("msgDelegate", "(a : Acct) (v : ValId) (d : Denom) (x : Int)", "msgDelegate a v d x"),
 ("msgUndelegate", "(a : Acct) (v : ValId) (d : Denom) (x : Int)", "msgUndelegate a v d x"),
 ("msgRedelegate", "(a : Acct) (s t : ValId) (d : Denom) (x : Int)", "msgRedelegate a s t d x"),
 ("msgClaim", "(a : Acct) (v : ValId) (d : Option Denom)", "msgClaim a v d"),
 ("msgUpdateParams", "(s : Signer) (p : Params)", "msgUpdateParams s p"),
 ("msgCreateAlliance", "(s : Signer) (f : AllianceFields)", "msgCreateAlliance s f"),
 ("msgUpdateAlliance", "(s : Signer) (f : AllianceFields)", "msgUpdateAlliance s f"),
 ("msgDeleteAlliance", "(s : Signer) (d : Option Denom)", "msgDeleteAlliance s d"),
]

# functions whose proof needs the explicit fold lemma
FOLD = {"completeRedelegations"}
# rewardWeightChangeHook recursion handled by induction
REC = {"rewardWeightChangeHook"}

CONFIGS = {
 # name: (projection body, simp attribute, writers of the projection — closed under callers)
 "Params": ("w.params", "pframe",
            {"setParams", "setLastRewardClaimTime", "deductAssetsWithTakeRate", "deductAssetsHook", "endBlocker", "msgUpdateParams"}),
 "Undel": ("(w.undelQueue, w.undelIndex)", "uframe",
           {"payEntry", "payBucket", "queueUndelegation", "undelegate", "msgUndelegate", "completeUnbondings", "slashUndelegations", "slashValidator",
            "beforeValidatorSlashed", "endBlocker"}),
 "UQ": ("w.undelQueue", "qframe",
        {"payBucket", "queueUndelegation", "undelegate", "msgUndelegate", "completeUnbondings", "slashUndelegations", "slashValidator",
         "beforeValidatorSlashed", "endBlocker"}),
 "G": ("(w.bank, w.assets, w.undelQueue, w.oracle, w.staking.bondDenom)", "gframe",
       {"setBalance", "sendCoin", "sendCoins", "mintCoin", "burnCoin", "withdrawRewards", "setAsset", "addAssetsToRewardPool",
        "claimValidatorRewards", "claimDelegationRewards", "settleBeforeDeposit", "resetAssetAndValidators", "clearDustDelegation",
        "queueUndelegation", "delegate", "undelegate", "redelegate", "payEntry", "payBucket", "completeUnbondings",
        "slashRedelegations", "slashUndelegations", "slashValidator", "beforeValidatorSlashed", "initializeAllianceAssets",
        "settleAllValidators", "updateAllianceAsset", "deductAssetsWithTakeRate", "deductAssetsHook", "rewardWeightChangeHook",
        "distrHookWithdraw", "stakingDelegate", "stakingUnbond", "rebalanceBondTokenWeights", "rebalanceHook", "endBlocker",
        "msgDelegate", "msgUndelegate", "msgRedelegate", "msgClaim", "msgCreateAlliance", "msgUpdateAlliance", "msgDeleteAlliance"}),
 "Good": ("(w.assets, w.undelQueue, w.oracle, w.staking.bondDenom)", "oframe",
       {"setAsset", "resetAssetAndValidators", "clearDustDelegation", "initializeAllianceAssets",
        "deductAssetsWithTakeRate", "deductAssetsHook", "msgCreateAlliance", "withdrawRewards", "addAssetsToRewardPool", "stakingDelegate", "stakingUnbond",
        "claimValidatorRewards", "claimDelegationRewards", "settleBeforeDeposit",
        "queueUndelegation", "delegate", "undelegate", "redelegate", "payBucket", "completeUnbondings",
        "slashRedelegations", "slashUndelegations", "slashValidator", "beforeValidatorSlashed",
        "settleAllValidators", "updateAllianceAsset", "rewardWeightChangeHook",
        "distrHookWithdraw", "rebalanceBondTokenWeights", "rebalanceHook", "endBlocker",
        "msgDelegate", "msgUndelegate", "msgRedelegate", "msgClaim", "msgUpdateAlliance", "msgDeleteAlliance"}),
 "OB": ("(w.oracle, w.staking.bondDenom)", "obframe",
       {"withdrawRewards", "stakingDelegate", "stakingUnbond",
        "claimValidatorRewards", "claimDelegationRewards", "settleBeforeDeposit",
        "delegate", "undelegate", "redelegate",
        "slashRedelegations", "slashValidator", "beforeValidatorSlashed",
        "settleAllValidators", "updateAllianceAsset", "rewardWeightChangeHook",
        "distrHookWithdraw", "rebalanceBondTokenWeights", "rebalanceHook", "endBlocker",
        "msgDelegate", "msgUndelegate", "msgRedelegate", "msgClaim", "msgUpdateAlliance", "msgDeleteAlliance"}),
 "BS": ("(w.bank, w.supply, w.staking.bondDenom)", "bsframe",
       {"setBalance", "sendCoin", "sendCoins", "mintCoin", "burnCoin", "withdrawRewards", "addAssetsToRewardPool",
        "claimValidatorRewards", "claimDelegationRewards", "settleBeforeDeposit",
        "delegate", "undelegate", "redelegate", "payEntry", "payBucket", "completeUnbondings",
        "slashRedelegations", "slashUndelegations", "slashValidator", "beforeValidatorSlashed",
        "settleAllValidators", "updateAllianceAsset", "deductAssetsWithTakeRate", "deductAssetsHook", "rewardWeightChangeHook",
        "distrHookWithdraw", "stakingDelegate", "stakingUnbond", "rebalanceBondTokenWeights", "rebalanceHook", "endBlocker",
        "msgDelegate", "msgUndelegate", "msgRedelegate", "msgClaim", "msgUpdateAlliance"}),
 "SS": ("(w.supply, w.staking.bondDenom)", "ssframe",
       {"mintCoin", "burnCoin", "completeUnbondings", "rebalanceBondTokenWeights", "rebalanceHook", "endBlocker"}),
 "Dels": ("w.dels", "dframe",
       {"setDelegation", "deleteDelegation", "claimDelegationRewards", "settleBeforeDeposit", "upsertDelegationWithNewTokens",
        "reduceDelegationShares", "clearDustShares", "clearDustDelegation", "delegate", "undelegate", "redelegate",
        "slashRedelegations", "slashValidator", "beforeValidatorSlashed",
        "msgDelegate", "msgUndelegate", "msgRedelegate", "msgClaim"}),
 "DV": ("(w.dels, w.vals)", "dvframe",
       {"setDelegation", "deleteDelegation", "setValInfo", "setValidator", "getAllianceValidator", "addAssetsToRewardPool",
        "claimValidatorRewards", "claimDelegationRewards", "settleBeforeDeposit", "updateValidatorShares",
        "upsertDelegationWithNewTokens", "reduceDelegationShares", "resetAssetAndValidators", "clearDustShares",
        "clearDustDelegation", "delegate", "undelegate", "redelegate", "slashRedelegations", "slashValidator",
        "beforeValidatorSlashed", "afterValidatorRemoved", "settleAllValidators", "updateAllianceAsset",
        "rewardWeightChangeHook", "rebalanceBondTokenWeights", "rebalanceHook", "endBlocker",
        "msgDelegate", "msgUndelegate", "msgRedelegate", "msgClaim", "msgUpdateAlliance"}),
 "Staking": ("(w.staking, w.time, w.height)", "sframe",
             {"setSVal", "stakingDelegate", "stakingUnbond", "rebalanceBondTokenWeights", "rebalanceHook", "endBlocker"}),
 "Redel": ("(w.redels, w.redelQueue, w.redelIndex)", "rframe",
           {"queueRedelegation", "addRedelegation", "redelegate", "msgRedelegate", "completeRedelegations", "endBlocker"}),
}

HEAD = '''/-
  GENERATED by bin/genframes.py (authoring time; committed). Frame lemmas for the projection
      π w := %(proj)s
  `Fr m`: the computation m leaves π unchanged, whether it succeeds or fails. One lemma per keeper function that never
  writes π, each proved by the structural walker `fr_walk`.
-/
import AllianceProofs.PresR
import AllianceProofs.Attr
import AllianceProofs.Attr2
set_option linter.unusedVariables false
namespace Alliance
namespace Frame%(name)s

/-- the projection -/
@[reducible] def π (w : World) := %(proj)s

structure Fr {α} (m : M α) : Prop where
  frame : ∀ w, π (m w).2 = π w

variable {α β : Type}
theorem pure (a : α) : Fr (Pure.pure a : M α) := ⟨fun _ => rfl⟩
theorem getW : Fr Alliance.getW := ⟨fun _ => rfl⟩
theorem throwE (c : String) : Fr (Alliance.throwE c : M α) := ⟨fun _ => rfl⟩
theorem panicE (c : String) : Fr (Alliance.panicE c : M α) := ⟨fun _ => rfl⟩
theorem guardE (c : Prop) [Decidable c] (code : String) : Fr (Alliance.guardE c code) := by
  constructor; intro w; unfold Alliance.guardE; split <;> rfl
theorem guardP (c : Prop) [Decidable c] (code : String) : Fr (Alliance.guardP c code) := by
  constructor; intro w; unfold Alliance.guardP; split <;> rfl
theorem requireSome (x : Option α) (code : String) : Fr (Alliance.requireSome x code) := by
  constructor; intro w; unfold Alliance.requireSome; cases x <;> rfl
theorem requireSomeP (x : Option α) : Fr (Alliance.requireSomeP x) := by
  constructor; intro w; unfold Alliance.requireSomeP; cases x <;> rfl
theorem liftE (x : Except Err α) : Fr (Alliance.liftE x) := by constructor; intro w; cases x <;> rfl
theorem modifyW (f : World → World) (h : ∀ w, π (f w) = π w) : Fr (Alliance.modifyW f) := ⟨fun w => h w⟩
theorem bind {m : M α} {f : α → M β} (hm : Fr m) (hf : ∀ a, Fr (f a)) : Fr (m >>= f) := by
  constructor
  intro w
  simp only [bind_apply]
  have h1 := hm.frame w
  rcases hmw : m w with ⟨r, w'⟩
  rw [hmw] at h1
  cases r with
  | ok a => simp only; rw [(hf a).frame w', h1]
  | error e => exact h1
theorem forEachM {γ : Type} (f : γ → M Unit) (xs : List γ) (h : ∀ x, Fr (f x)) : Fr (Alliance.forEachM f xs) := by
  induction xs with
  | nil => exact pure ()
  | cons x t ih => unfold Alliance.forEachM; exact bind (h x) (fun _ => ih)
theorem foldlM {γ σ : Type} (f : σ → γ → M σ) (xs : List γ) (init : σ) (h : ∀ s x, Fr (f s x)) :
    Fr (xs.foldlM f init) := by
  induction xs generalizing init with
  | nil => exact pure init
  | cons x t ih => rw [List.foldlM_cons]; exact bind (h init x) (fun s => ih s)
theorem asTx {m : M α} (hm : Fr m) : Fr (Alliance.asTx m) := by
  constructor
  intro w
  rw [asTx_apply]
  have h1 := hm.frame w
  rcases hmw : m w with ⟨r, w'⟩
  rw [hmw] at h1
  cases r with
  | ok a => exact h1
  | error e => first | rfl | (simp only [π, Prod.mk.injEq] at h1 ⊢; simp [h1])

/-- π is an invariant-carrying projection: any state predicate that only reads π is preserved by a framed computation -/
theorem toPresR {m : M α} (h : Fr m) (J : _ → Prop) : PresR (fun w => J (π w)) m Any := by
  constructor
  intro w hw
  refine ⟨?_, fun _ _ => trivial⟩
  show J (π (m w).2)
  rw [h.frame w]
  exact hw

/-- as a Hoare triple: any predicate of π is carried through, on success and on failure -/
theorem toTriple {m : M α} (h : Fr m) (J : _ → Prop) :
    Triple (fun w => J (π w)) m (fun _ w => J (π w)) (fun w => J (π w)) := by
  intro w hw
  have h1 := h.frame w
  rcases hmw : m w with ⟨r, w'⟩
  rw [hmw] at h1
  cases r with
  | ok a => show J (π w'); rw [h1]; exact hw
  | error e => show J (π w'); rw [h1]; exact hw

macro "fr_walk" : tactic => `(tactic| repeat' (first
  | apply pure | apply getW | apply throwE | apply panicE | apply liftE
  | apply guardE | apply guardP | apply requireSome | apply requireSomeP
  | (apply modifyW; intro _; rfl)
  | (simp only [%(attr)s]; done)
  | apply forEachM | apply foldlM
  | apply bind
  | intro _
  | split
  | (dsimp only [])))

'''

FOLDPROOF = '''@[%(attr)s] theorem completeRedelegations : Fr Alliance.completeRedelegations := by
  unfold Alliance.completeRedelegations
  apply modifyW
  intro w
  simp only
  have key : ∀ (qs : List (Time × List Redel)) (w0 : World),
      π (qs.foldl (fun (w : World) (q : Time × List Redel) =>
        q.2.foldl (fun (w : World) (r : Redel) =>
          { w with redels := AL.erase w.redels (r.del, r.denom, r.dst, q.1),
                   redelIndex := w.redelIndex.erase (r.src, q.1, r.denom, r.dst, r.del) }) w) w0) = π w0 := by
    intro qs
    induction qs with
    | nil => intro w0; rfl
    | cons q t ih =>
      intro w0
      rw [List.foldl_cons, ih]
      have inner : ∀ (rs : List Redel) (w1 : World),
          π (rs.foldl (fun (w : World) (r : Redel) =>
            { w with redels := AL.erase w.redels (r.del, r.denom, r.dst, q.1),
                     redelIndex := w.redelIndex.erase (r.src, q.1, r.denom, r.dst, r.del) }) w1) = π w1 := by
        intro rs
        induction rs with
        | nil => intro w1; rfl
        | cons r t2 ih2 => intro w1; rw [List.foldl_cons, ih2]
      exact inner q.2 w0
  exact key _ w
'''

RECPROOF = '''theorem rewardWeightChangeHook_go (as acc : List Asset) : Fr (Alliance.rewardWeightChangeHook.go as acc) := by
  induction as generalizing acc with
  | nil => unfold Alliance.rewardWeightChangeHook.go; exact pure _
  | cons a rest ih =>
    unfold Alliance.rewardWeightChangeHook.go
    apply bind getW; intro w0
    split
    · exact ih _
    · dsimp only []
      split
      · apply bind (by fr_walk); intro _
        apply bind (by fr_walk); intro _
        exact ih _
      · exact panicE _
@[%(attr)s] theorem rewardWeightChangeHook (as : List Asset) : Fr (Alliance.rewardWeightChangeHook as) := by
  unfold Alliance.rewardWeightChangeHook; exact rewardWeightChangeHook_go as []
'''


def gen(name):
    proj, attr, writers = CONFIGS[name]
    out = HEAD % dict(name=name, proj=proj, attr=attr)
    for fn, binders, app in FUNCS:
        if fn in writers:
            continue
        if fn in FOLD:
            out += FOLDPROOF % dict(attr=attr)
            continue
        if fn in REC:
            out += RECPROOF % dict(attr=attr)
            continue
        b = (" " + binders) if binders else ""
        out += "@[%s] theorem %s%s : Fr (Alliance.%s) := by\n  unfold Alliance.%s; fr_walk\n" % (attr, fn, b, app, fn)
    out += "\nend Frame%s\nend Alliance\n" % name
    open(os.path.join(L, "Frame%s.lean" % name), "w").write(out)
    print("wrote Frame%s.lean" % name)


if __name__ == "__main__":
    for n in (sys.argv[1:] or CONFIGS):
        gen(n)
