#!/usr/bin/env python3
"""Regenerates MANIFEST.json from bin/props.py (so the manifest and the check configuration cannot drift apart)."""
import json, os, sys
sys.path.insert(0, os.path.dirname(os.path.abspath(__file__)))
from props import PROPS, NOT_APPLICABLE, NOTES

checks = []
for pid, c in sorted(PROPS.items()):
    if pid in NOT_APPLICABLE:
        continue
    checks.append({
        "property_id": pid,
        "quick_cmd": "bin/check %s quick" % pid,
        "thorough_cmd": "bin/check %s thorough" % pid,
        "evidence_file": "evidence/%s.json" % pid,
        "replay_cmd_template": "bin/check replay {path}",
        "engine": "lean4-model+trace-correspondence",
        "level_claimed": {"category": c["level"], "text": c["claim"], "design_ref": c.get("design_ref", "DESIGN.md §6 " + pid)},
        "level_note": c["note"],
        "technique": c["technique"],
    })
m = {
    "version": 1,
    "setup_cmd": "bin/check setup",
    "hooks": {
        "guard": "verif",
        "enable": "go test -c -tags verif (harness module with `replace github.com/terra-money/alliance => /repo`); no hook code lives in /repo",
        "baseline_off_cmd": "cd /repo && go test -vet=off -count=1 -timeout 25m ./...",
        "source_commits": [],
        "add_only": True,
    },
    "engines": [
        {"name": "lean4-model+trace-correspondence", "path": "lean/ harness/ bin/check",
         "serves_properties": [c["property_id"] for c in checks],
         "kind_free_text": "Lean 4 executable model with machine-checked theorems (lake build + #print axioms audit); Go harness drives the real app, "
                           "alliance-driver replays every observed step on the model and compares state component by component; property monitors "
                           "and branch probes search for concrete failing histories"},
    ],
    "checks": checks,
    "not_applicable": [{"property_id": p, "reason": r} for p, r in sorted(NOT_APPLICABLE.items())],
    "notes": NOTES,
}
json.dump(m, open(os.path.join(os.path.dirname(os.path.dirname(os.path.abspath(__file__))), "MANIFEST.json"), "w"), indent=1)
print("wrote MANIFEST.json with %d checks, %d not applicable" % (len(checks), len(NOT_APPLICABLE)))
