#!/usr/bin/env python3
"""
mkwitness.py <sweepdir> [prop class]   (development tool, not used by the registered checks)

For every (property, class) monitor/probe failure found in a sweep directory (traces + scn/ written by bin/sweep.sh)
that has no witness yet under scenarios/kf/, cut the generating scenario at the failing operation, shrink it by
greedy line removal (the failure class must still be reported on the LAST executed line), and store it as
scenarios/kf/<prop>_<class>.scn.
"""
import sys, os, re, subprocess, glob, tempfile, concurrent.futures as cf

VERIF = os.path.dirname(os.path.dirname(os.path.abspath(__file__)))
HARNESS = os.path.join(VERIF, "harness")
GOENV = dict(os.environ, GOFLAGS="-mod=mod", GOPROXY="off", GOSUMDB="off", GOTOOLCHAIN="local", VERIF_PROBES="all")


def run_scn(lines):
    """returns the list of (src, notes) per step"""
    with tempfile.TemporaryDirectory() as td:
        p = os.path.join(td, "w.scn")
        open(p, "w").write("\n".join(lines) + "\n")
        out = os.path.join(td, "w.trace")
        env = dict(GOENV, VERIF_SCENARIO=p, VERIF_OUT=out)
        try:
            subprocess.run([os.path.join(HARNESS, "harness.test"), "-test.run", "TestScenario"], cwd=HARNESS, env=env,
                           capture_output=True, timeout=120)
        except subprocess.TimeoutExpired:
            return []
        steps = []
        src, notes = None, []
        if not os.path.exists(out):
            return []
        for l in open(out, errors="replace"):
            l = l.rstrip("\n")
            if l.startswith("# mon ") or l.startswith("# probe ") or l.startswith("# detail"):
                notes.append(l[2:])
            elif l.startswith("# "):
                src, notes = l[2:], []
            elif l.startswith("O "):
                steps.append((src, notes))
                notes = []
        return steps


def fails_at_end(lines, prop, cls):
    steps = run_scn(lines)
    if not steps:
        return False
    # the failure must be reported by one of the steps produced by the last scenario line
    last = lines[-1].split()[0]
    n = 3 if last == "block" else 2 if last == "closeblock" else 1
    pat = re.compile(r"(mon|probe) %s fail class=%s( |$)" % (prop, re.escape(cls)))
    return any(pat.search(x) for s in steps[-n:] for x in s[1])


def shrink(lines, prop, cls):
    head = [l for l in lines if l.startswith("config")]
    body = [l for l in lines if not l.startswith("config")]
    if not fails_at_end(head + body, prop, cls):
        return None
    i = len(body) - 2
    while i >= 0:
        cand = body[:i] + body[i + 1:]
        if fails_at_end(head + cand, prop, cls):
            body = cand
        i -= 1
    return head + body


def first_occurrences(sweep):
    occ = {}
    for tr in sorted(glob.glob(os.path.join(sweep, "*.trace"))):
        seed, prof, rel, src = None, None, 0, None
        pending = []
        for l in open(tr, errors="replace"):
            if l.startswith("# trace seed="):
                m = re.match(r"# trace seed=(\d+) profile=(\S+)", l)
                seed, prof, rel = m.group(1), m.group(2), 0
            elif l.startswith("# mon ") or l.startswith("# probe "):
                m = re.match(r"# (mon|probe) (C\d+) fail class=(\S+)", l)
                if m:
                    pending.append((m.group(2), m.group(3)))
            elif l.startswith("O "):
                for k in pending:
                    if seed is None:
                        continue
                    occ.setdefault(k, (os.path.join(sweep, "scn", "%s-%s.scn" % (prof, seed)), rel))
                pending = []
                rel += 1
    return occ


def cut(scn, rel):
    lines = [l.rstrip("\n") for l in open(scn)]
    out, n = [], 0
    for l in lines:
        out.append(l)
        k = l.split()[0]
        if k == "config":
            continue
        n += 3 if k == "block" else 2 if k == "closeblock" else 1
        if n > rel:
            break
    return out


def main():
    sweep = sys.argv[1]
    only = tuple(sys.argv[2:4]) if len(sys.argv) >= 4 else None
    occ = first_occurrences(sweep)
    os.makedirs(os.path.join(VERIF, "scenarios", "kf"), exist_ok=True)
    todo = []
    for (prop, cls), (scn, rel) in sorted(occ.items()):
        if only and (prop, cls) != only:
            continue
        dst = os.path.join(VERIF, "scenarios", "kf", "%s_%s.scn" % (prop, cls))
        if os.path.exists(dst) and not only:
            continue
        todo.append((prop, cls, scn, rel, dst))

    def work(t):
        prop, cls, scn, rel, dst = t
        lines = cut(scn, rel)
        res = shrink(lines, prop, cls)
        if res is None:
            return "%s %s: could not reproduce from %s@%d" % (prop, cls, scn, rel)
        open(dst, "w").write("# witness for %s class=%s (shrunk from %s)\n" % (prop, cls, os.path.basename(scn)) + "\n".join(res) + "\n")
        return "%s %s: %d lines -> %s" % (prop, cls, len(res), dst)

    with cf.ThreadPoolExecutor(max_workers=12) as ex:
        for r in ex.map(work, todo):
            print(r)


if __name__ == "__main__":
    main()
