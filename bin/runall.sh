#!/bin/bash
# development aid: run every registered check of a tier on the current tree and report exit codes
tier=${1:-quick}
cd /verif
for i in $(seq -w 1 20); do
  p=C$i
  s=$(date +%s)
  out=$(bin/check $p $tier 2>&1); rc=$?
  echo "$p rc=$rc $(( $(date +%s)-s ))s $(echo "$out" | grep -c '^VIOLATION') violations $(echo "$out" | grep -c '^KNOWN-FINDING') known"
  echo "$out" | grep '^VIOLATION' | head -3
done
