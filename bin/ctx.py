#!/usr/bin/env python3
"""ctx.py <trace> <class-substring> [n]: print the context (source line, notes, op, result) of the first n steps whose notes mention the substring"""
import sys
path, pat = sys.argv[1], sys.argv[2]
n = int(sys.argv[3]) if len(sys.argv) > 3 else 3
notes = []
seed = None
with open(path) as f:
    lines = f.read().split('\n')
i = 0
while i < len(lines):
    l = lines[i]
    if l.startswith('#') or l == '':
        if l.startswith('# trace'):
            seed = l
        notes.append(l)
        i += 1
        continue
    grp = lines[i:i+4]
    if any(pat in x for x in notes):
        print(seed)
        for x in notes:
            print('   ', x[:400])
        print('   ', grp[1][:300])
        print('   ', grp[2][:300])
        import os
        if os.environ.get('FULL'):
            for tag, s_ in (('PRE', grp[0]), ('POST', grp[3])):
                a = s_[s_.index(' assets '):s_.index(' redels ')]
                print('   ', tag, a[:3000])
        n -= 1
        if n == 0:
            break
    notes = []
    i += 4
