#!/bin/bash
# usage: trymut.sh <patch.diff> <prop> [prop...] — apply a seeded change to /repo, run the quick checks, undo it (development aid)
patch=$1; shift
cd /repo && git apply "$patch" || { echo "patch does not apply"; exit 2; }
for p in "$@"; do
  s=$(date +%s)
  out=$(cd /verif && timeout 1500 bin/check $p ${TIER:-quick} 2>&1); rc=$?
  echo "== $p rc=$rc $(( $(date +%s)-s ))s"; echo "$out" | grep "^VIOLATION" | head -5
done
cd /repo && git checkout -- . && git status --short | head -3
# the regenerated Lean files were rewritten from the changed source: regenerate them from the restored tree
(cd /verif/astfacts && GOFLAGS=-mod=mod GOPROXY=off GOSUMDB=off GOTOOLCHAIN=local go run . /repo /verif/lean/Generated/Facts.lean)
