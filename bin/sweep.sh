#!/bin/bash
# usage: sweep.sh <outdir> <seed> <traces> <steps> [profiles...]  — ad-hoc unchanged-tree sweep (development aid)
out=$1; seed=$2; n=$3; steps=$4; shift 4
profiles=${@:-default big queues rewards gov staking}
mkdir -p $out/scn
( cd /verif/harness && GOFLAGS=-mod=mod GOPROXY=off GOSUMDB=off GOTOOLCHAIN=local go test -c -tags verif -o harness.test . ) || exit 1
for p in $profiles; do
  ( cd /verif/harness && VERIF_PROBES=${VERIF_PROBES:-} VERIF_GEN=1 VERIF_PROFILE=$p VERIF_SEED=$seed VERIF_TRACES=$n VERIF_STEPS=$steps VERIF_SCNDIR=$out/scn VERIF_OUT=$out/$p.trace ./harness.test -test.run TestGen 2>&1 | grep -v "^\s" | grep -v "^PASS\|^ok" | head -5
    timeout 600 /verif/lean/.lake/build/bin/alliance-driver < $out/$p.trace > $out/$p.out
    echo "$p rc=$? ok=$(grep -c 'ok$' $out/$p.out) div=$(grep -c 'diverge\|parse' $out/$p.out)" ) &
done
wait
grep -h "diverge\|parse" $out/*.out | sed 's/step [0-9]* //' | awk '{print $1,$2}' | sort | uniq -c | sort -rn | head -20
