"""Per-property configuration of bin/check: generator emphasis, footprint (components × operations whose
correspondence the property's theorems rest on), the theorems that must appear in the axiom audit."""

import json as _json, os as _os
ALLOWED_AXIOMS = {"propext", "Classical.choice", "Quot.sound"}
try:
    THEOREMS = _json.load(open(_os.path.join(_os.path.dirname(_os.path.abspath(__file__)), "theorems.json")))
except OSError:
    THEOREMS = {}

USER_OPS = ["delegate", "undelegate", "redelegate", "claim"]
GOV_OPS = ["create", "update", "delete", "params"]
ALL_OPS = USER_OPS + GOV_OPS + ["slash", "endblock"]

Q = {"traces": 96, "steps": 80, "timeout": 900}
T = {"traces": 2400, "steps": 150, "timeout": 5400}


BASE_NOTE = ("Trusted: Lean 4.33.0 kernel; axioms propext, Classical.choice, Quot.sound only (audited per theorem on every run); the hand-written "
             "model AllianceModel/* is tied to /repo by per-step trace correspondence (sampled, not proved); x/bank as a ledger, x/staking share "
             "arithmetic for the module account, x/distribution as an oracle; no big.Int/int64 overflow except in weight decay; the Go harness.")


def P(title, profiles, components, ops, text, theorems=(), module=None, level="proof", probes="", directed=None,
      assumptions=(), facts=(), claim=None, technique="Lean 4 theorems over an executable model + trace correspondence with the real app"):
    if not theorems and level == "proof":
        # no machine-checked theorem registered for this property yet: only the model/code correspondence is claimed
        level = "translation_validation"
    d = dict(title=title, profiles=profiles, components=components, ops=ops, text=text, theorems=list(theorems),
             module=module, level=level, probes=probes, quick=dict(Q), thorough=dict(T), assumptions=list(assumptions),
             facts=list(facts), claim=claim or text, note=BASE_NOTE, technique=technique)
    if directed:
        d["directed"] = directed
    return d


PROPS = {
    "C01": P("custody", ["default", "queues", "big", "genesis"], ["theorem.C01", "bank", "assets", "uq"], ALL_OPS,
             "custody invariant proved over the model for all histories; model tied to the code by per-step trace correspondence",
             module=None),
    "C02": P("unbonding payout", ["queues", "default", "genesis"], ["theorem.INV-I", "theorem.C02", "uq", "ui", "bank", "clock"], ["undelegate", "endblock", "slash", "reimport"],
             "queue/index theorems over the model; correspondence on undelegate, end-of-block and slash steps",
             module=None),
    "C03": P("share ledger", ["default", "queues", "big", "genesis"], ["theorem.STORES", "vals", "dels", "assets"], ALL_OPS,
             "share-sum invariants over the model; correspondence of every share mutation", module=None),
    "C04": P("position isolation", ["default", "big"], ["theorem.C04", "vals", "dels", "assets"], USER_OPS,
             "value-frame theorems over the model; correspondence of the share arithmetic", module=None),
    "C05": P("user liveness", ["default", "rewards"], ["vals", "dels", "assets", "bank"], USER_OPS,
             "totality theorems under the stated liveness predicate; probes on a discarded branch after every step",
             module=None, probes="C05"),
    "C06": P("bonded slash", ["queues", "staking"], ["vals", "assets", "dels"], ["slash"],
             "exact slash relations over the model; correspondence of the slash callback", module=None),
    "C07": P("slash of pending entries", ["queues", "genesis"], ["theorem.INV-I", "theorem.INV-R", "uq", "ui", "dels", "vals", "bank", "redels"], ["slash", "reimport"],
             "entry-level slash theorems over the model; correspondence of the slash callback", module=None),
    "C08": P("slash callback totality", ["queues", "staking"], ["flag", "uq", "dels", "vals", "assets"], ["slash"],
             "totality of the callback under HookOK; correspondence of result and effects", module=None),
    "C09": P("take rate", ["default", "gov"], ["assets", "params", "bank"], ["endblock", "params"],
             "deduction, clock and gating theorems; correspondence of end-of-block steps", module=None),
    "C10": P("voting power", ["staking", "default"], ["staking", "flag", "supply", "bank"], ["endblock", "slash"] + USER_OPS,
             "rebalance target theorems over the staking model; correspondence of the staking view after end-of-block",
             module=None),
    "C11": P("virtual staking tokens", ["staking", "rewards"], ["query", "supply", "bank", "staking"], ["endblock"] + USER_OPS + ["slash"],
             "mint/burn pairing theorems; correspondence of supply and pool balances; the bank SupplyOf/TotalSupply queries against the model's net-supply functions (`Q` lines)", module=None, probes="C11"),
    "C12": P("reward pool solvency", ["rewards"], ["theorem.C12", "vals", "dels", "bank"], USER_OPS + ["slash", "endblock"],
             "partial solvency theorem; claim-all probes on a discarded branch", module=None, probes="C12"),
    "C13": P("reward entitlement", ["rewards"], ["theorem.C13", "vals", "dels", "bank"], USER_OPS,
             "index/claim theorems; correspondence of reward indices and payouts", module=None, probes="C13"),
    "C14": P("reward weight lifecycle", ["gov", "default"], ["assets", "snaps", "vals"], ["endblock", "update", "create"],
             "range invariant and decay exactness; correspondence of end-of-block and governance steps", module=None),
    "C15": P("redelegation", ["queues", "genesis"], ["theorem.INV-R", "theorem.C15", "redels", "rq", "ri", "dels", "vals", "assets"], ["redelegate", "endblock", "reimport"],
             "record/cleanup theorems; correspondence of redelegation steps", module=None),
    "C16": P("governance gate", ["gov"], ["assets", "params"], GOV_OPS,
             "gate and validity theorems for all field values; correspondence of the governance handlers", module=None),
    "C17": P("end-of-block totality", ["gov", "default", "staking"], ["params", "assets"], ["endblock", "params", "update"],
             "totality theorem under the explicit EndBlockOK predicate; result correspondence of every EndBlocker run",
             module=None),
    "C18": P("genesis round trip", ["genesis"], ["*"], ["reimport"] + ALL_OPS,
             "export/import theorems over the model; lock-step continuation on original and re-imported state",
             module=None, probes="C18"),
    "C19": P("determinism", ["default", "queues"], ["*"], ["*"],
             "the model's step is a function and the implementation equals it on every explored step; regenerated hazard table",
             module=None, level="other", probes="C19"),
    "C20": P("queries", ["queues", "default", "genesis"], ["query", "theorem.INV-I", "uq", "ui", "redels", "dels"], ["query"] + USER_OPS + ["slash", "endblock"],
             "query refinement theorems over the model's query functions; every query of the real query server after every step against the model's answer on the observed state (`Q` lines) and against the reference enumeration",
             module=None, probes="C20"),
}


PROPS["C19"]["replays"] = 3
for _p in ("C10", "C11"):
    PROPS[_p]["quick"] = {"traces": 144, "steps": 90, "timeout": 900}

# properties not claimed (none: every property is decided by the same technique; C19 at level `other`)
NOT_APPLICABLE = {}

# theorem lists come from the Lean sources (bin/mkaudit.py); a property with registered theorems is claimed at level `proof`
for _pid, _c in PROPS.items():
    _t = THEOREMS.get(_pid, [])
    if _t:
        _c["theorems"] = _t
        _c["module"] = "AllianceProps." + _pid
        if _c["level"] == "translation_validation":
            _c["level"] = "proof"

NOTES = ("Machine-checked proof in Lean 4 over a hand-written executable model of x/alliance, tied to /repo on every run by trace "
         "correspondence (DESIGN.md). Known findings are listed in KNOWN_FINDINGS.txt; repaired defects are `fix:` commits in /repo.")
