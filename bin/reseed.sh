#!/bin/bash
# re-run every stored seeded change against the quick check of the property it breaks
cd /verif
for d in seeded/C*-*/; do
  id=$(basename $d)
  p=${id%%-*}
  [ -f $d/patch.diff ] || continue
  out=$(bin/trymut.sh /verif/$d/patch.diff $p 2>&1 | grep "== $p" )
  echo "$id $out"
done
git -C /repo status --short | head -2
